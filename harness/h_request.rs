//! C12.scheme / C12.types / C12.srchash — child module of src/request.rs (reaches the private constructors).
use super::*;

fn sym_ascii<const N: usize>(buf: &[u8; N], len: usize) -> &str {
    kani::assume(len <= N);
    let mut i = 0;
    while i < N {
        kani::assume(buf[i] < 0x80 && buf[i] >= 0x20);
        i += 1;
    }
    unsafe { core::str::from_utf8_unchecked(&buf[..len]) }
}
pub fn pack(b: &[u8]) -> utils::Hash {
    let mut h: u64 = b.len() as u64;
    let mut i = 0;
    while i < b.len() && i < 7 {
        h = (h << 8) | (b[i] as u64);
        i += 1;
    }
    h | (1u64 << 63)
}
static mut REC: [u64; 8] = [0; 8];
static mut RECN: usize = 0;
pub fn stub_fast_hash_rec(input: &str) -> utils::Hash {
    let h = pack(input.as_bytes());
    unsafe {
        if RECN < 8 {
            REC[RECN] = h;
        }
        RECN += 1;
    }
    h
}
fn is_lit(b: &[u8], t: &[u8]) -> bool {
    if b.len() != t.len() {
        return false;
    }
    let mut i = 0;
    let mut e = true;
    while i < t.len() {
        if b[i] != t[i] {
            e = false;
        }
        i += 1;
    }
    e
}

/// scheme -> (is_http, is_https, is_supported, forced websocket type) for every scheme string <= 5 bytes
#[kani::proof]
#[kani::unwind(12)]
#[kani::stub(crate::utils::fast_hash, stub_fast_hash_rec)]
fn c12_scheme() {
    let mut dr = crate::verif_shim::Draw::new();
    let sb: [u8; 5] = dr.bytes::<5>();
    let sl: usize = dr.usize();
    let s = sym_ascii(&sb, sl);
    // the scheme is the URL prefix before the first ':' (documented precondition of the private constructor)
    let mut i = 0;
    while i < 5 {
        kani::assume(sb[i] != b':');
        i += 1;
    }
    let ty: u8 = dr.u8();
    let raw = match ty % 3 {
        0 => "image",
        1 => "script",
        _ => "websocket",
    };
    let r = Request::from_detailed_parameters(raw, "", s, "", "", false, String::new());
    let b = s.as_bytes();
    let (h, hs, w, ws) = (is_lit(b, b"http"), is_lit(b, b"https"), is_lit(b, b"ws"), is_lit(b, b"wss"));
    assert!(r.is_http == h, "P:scheme.is_http");
    assert!(r.is_https == (hs || sl == 0), "P:scheme.is_https");
    assert!(r.is_supported == (sl == 0 || h || hs || w || ws), "P:scheme.only_http_https_ws_wss_supported");
    assert!((r.request_type == RequestType::Websocket) == (w || ws || ty % 3 == 2), "P:scheme.ws_forces_websocket_type");
    assert!(!(r.is_http && r.is_https), "P:scheme.flags_exclusive");
    kani::cover!(r.request_type == RequestType::Websocket && ty % 3 == 0, "W:scheme.forced_websocket");
    kani::cover!(!r.is_supported, "W:scheme.unsupported");
    kani::cover!(r.is_http, "W:scheme.http");
    core::mem::forget(r);
}

/// the documented alias table, chosen by a symbolic index (finite table: the solver carries out the enumeration)
#[kani::proof]
#[kani::unwind(20)]
fn c12_types() {
    let mut dr = crate::verif_shim::Draw::new();
    const T: [(&str, u8); 25] = [
        ("beacon", 0), ("csp_report", 1), ("document", 2), ("main_frame", 2), ("font", 3), ("image", 4), ("imageset", 4),
        ("media", 5), ("object", 6), ("object_subrequest", 6), ("ping", 0), ("script", 7), ("stylesheet", 8), ("sub_frame", 9),
        ("subdocument", 9), ("websocket", 10), ("xhr", 11), ("xmlhttprequest", 11), ("other", 12), ("speculative", 12), ("xslt", 12),
        ("web_manifest", 12), ("xbl", 12), ("xml_dtd", 12), ("no-such-type", 12),
    ];
    let i: usize = dr.usize();
    kani::assume(i < 25);
    let got = cpt_match_type(T[i].0);
    let code = match got {
        RequestType::Ping => 0,
        RequestType::Csp => 1,
        RequestType::Document => 2,
        RequestType::Font => 3,
        RequestType::Image => 4,
        RequestType::Media => 5,
        RequestType::Object => 6,
        RequestType::Script => 7,
        RequestType::Stylesheet => 8,
        RequestType::Subdocument => 9,
        RequestType::Websocket => 10,
        RequestType::Xmlhttprequest => 11,
        RequestType::Other => 12,
        _ => 99,
    };
    assert!(code == T[i].1, "P:types.alias_table");
    kani::cover!(i == 3 && code == 2, "W:types.main_frame_is_document");
    kani::cover!(code == 12, "W:types.other");
}

pub fn stub_fast_hash_plain(input: &str) -> utils::Hash {
    pack(input.as_bytes())
}
// Recording stub without a counter (a read-modify-write of a static inside the stub makes Kani report
// spurious pointer failures in Vec::push on this path — measured): every string hashed on this path is a
// suffix of the source host, and suffixes have pairwise distinct lengths, so the slot is the string length.
static mut SEEN: [bool; 8] = [false; 8];
static mut BYLEN: [u64; 8] = [0; 8];
pub fn stub_fast_hash_bylen(input: &str) -> utils::Hash {
    let h = pack(input.as_bytes());
    let n = input.len();
    unsafe {
        if n < 8 {
            SEEN[n] = true;
            BYLEN[n] = h;
        }
    }
    h
}

/// source-host hashes: absent iff the host is empty; otherwise the full host plus one entry per '.'-suffix
/// (a '.' that is the last byte adds none), each the hash of exactly that suffix, and nothing else.
fn srchash_kernel<const N: usize>() {
    let mut dr = crate::verif_shim::Draw::new();
    let hb: [u8; N] = dr.bytes::<N>();
    let hl: usize = dr.usize();
    let h = sym_ascii(&hb, hl);
    let r = Request::preparsed("a:", "", h, "image", false);
    unsafe {
        match &r.source_hostname_hashes {
            None => {
                assert!(hl == 0, "P:srchash.absent_iff_empty");
            }
            Some(v) => {
                assert!(hl > 0, "P:srchash.present_iff_nonempty");
                assert!(SEEN[hl] && BYLEN[hl] == pack(&hb[..hl]), "P:srchash.full_host_hashed");
                let mut k = 1;
                let mut i = 0;
                while i < N {
                    // suffix starting at i+1 has length hl-i-1
                    if i < hl && i + 1 < hl {
                        let want = hb[i] == b'.';
                        let l = hl - i - 1;
                        if want {
                            assert!(SEEN[l] && BYLEN[l] == pack(&hb[i + 1..hl]), "P:srchash.suffix_after_each_dot");
                            k += 1;
                        } else {
                            assert!(!SEEN[l], "P:srchash.nothing_else_hashed");
                        }
                    }
                    i += 1;
                }
                assert!(v.len() == k, "P:srchash.count");
                kani::cover!(k >= 3, "W:srchash.two_dots");
            }
        }
    }
    kani::cover!(r.source_hostname_hashes.is_none(), "W:srchash.absent");
    core::mem::forget(r);
}
#[kani::proof]
#[kani::unwind(8)]
#[kani::stub(crate::utils::fast_hash, stub_fast_hash_bylen)]
fn c12_srchash() {
    srchash_kernel::<4>();
}
#[kani::proof]
#[kani::unwind(9)]
#[kani::stub(crate::utils::fast_hash, stub_fast_hash_bylen)]
fn c12_srchash_t() {
    srchash_kernel::<5>();
}

/// URL tokenisation does not feed the classification; it is cut so that the URL can be 8..10 symbolic bytes
pub fn stub_tokenize_pooled(_pattern: &str, _tokens_buffer: &mut Vec<utils::Hash>) {}

#[kani::proof]
#[kani::unwind(14)]
#[kani::stub(crate::utils::tokenize_pooled, stub_tokenize_pooled)]
fn c12_presplit() {
    presplit_kernel::<10>();
}
#[kani::proof]
#[kani::unwind(20)]
#[kani::stub(crate::utils::tokenize_pooled, stub_tokenize_pooled)]
fn c12_presplit_t() {
    presplit_kernel::<16>();
}

/// the scheme Request::preparsed derives from the URL text is the prefix before the first ':' (none: empty):
/// URL <= 4 printable ASCII bytes; supported <=> that prefix is one of "", http, https, ws, wss.
fn presplit_kernel<const N: usize>() {
    let mut dr = crate::verif_shim::Draw::new();
    let ub: [u8; N] = dr.bytes::<N>();
    let ul: usize = dr.usize();
    let u = sym_ascii(&ub, ul);
    let r = Request::preparsed(u, "", "", "image", false);
    let mut colon = usize::MAX;
    let mut i = 0;
    while i < N {
        if colon == usize::MAX && i < ul && ub[i] == b':' {
            colon = i;
        }
        i += 1;
    }
    let scheme: &[u8] = if colon == usize::MAX { &ub[..0] } else { &ub[..colon] };
    let (h, hs, w, ws) = (is_lit(scheme, b"http"), is_lit(scheme, b"https"), is_lit(scheme, b"ws"), is_lit(scheme, b"wss"));
    assert!(r.is_supported == (scheme.len() == 0 || h || hs || w || ws), "P:presplit.supported_iff_scheme_before_first_colon_is_known");
    assert!((r.request_type == RequestType::Websocket) == (w || ws), "P:presplit.ws_forces_websocket_type");
    kani::cover!(!r.is_supported, "W:presplit.unsupported");
    kani::cover!(r.request_type == RequestType::Websocket, "W:presplit.websocket");
    core::mem::forget(r);
}
