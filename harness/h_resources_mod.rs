//! C18.perm — child module of src/resources/mod.rs (reaches the private `is_default`).
use super::*;

/// Every permission decision in the crate (scriptlet, each dependency, redirect refusal) is a call
/// to `is_injectable_by` or `is_default`. Oracle: bitwise subset, written bit by bit.
#[kani::proof]
#[kani::unwind(10)]
fn c18_perm() {
    let mut dr = crate::verif_shim::Draw::new();
    let r: u8 = dr.u8();
    let f: u8 = dr.u8();
    let required = PermissionMask::from_bits(r);
    let granted = PermissionMask::from_bits(f);
    let got = required.is_injectable_by(granted);
    let mut want = true;
    let mut i = 0;
    while i < 8 {
        if (r >> i) & 1 == 1 && (f >> i) & 1 == 0 {
            want = false;
        }
        i += 1;
    }
    assert!(got == want, "P:perm.subset");
    assert!(required.is_default() == (r == 0), "P:perm.default");
    // a resource that needs nothing is always injectable; one that needs a bit is never injectable by the default mask
    assert!(PermissionMask::from_bits(0).is_injectable_by(granted), "P:perm.zero_needs_nothing");
    assert!(r == 0 || !required.is_injectable_by(PermissionMask::default()), "P:perm.default_grants_nothing");
    // the per-host permission of an injection is the union of the permissions of the rules that requested it
    let mut acc = required;
    acc |= granted;
    assert!(acc.0 == (r | f) && (required | granted).0 == (r | f), "P:perm.union_of_rule_permissions");
    kani::cover!(got && r != 0, "W:perm.granted_nonzero");
    kani::cover!(!got, "W:perm.refused");
}
