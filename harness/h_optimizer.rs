//! C05.fuse — child module of src/optimizer.rs (reaches the private SimplePatternGroup).
use super::*;
use crate::filters::network::NetworkMatchable;
use crate::regex_manager::RegexManager;

fn sym_ascii<const N: usize>(buf: &[u8; N], len: usize) -> &str {
    kani::assume(len <= N);
    let mut i = 0;
    while i < N {
        kani::assume(buf[i] < 0x80 && buf[i] >= 0x20);
        i += 1;
    }
    unsafe { core::str::from_utf8_unchecked(&buf[..len]) }
}

// regex kinds, host anchor, match-case: syntactically off (their matcher arms are regex / str::contains)
const KIND: u32 = (1 << 18) | (1 << 21) | (1 << 24) | (1 << 28) | (1 << 14);

fn one(c: u8) -> String {
    let mut s = String::new();
    s.push(c as char);
    s
}
/// `empty`: matches every URL. `anyof`: an already fused member whose two alternatives are the first and the
/// second byte of `pat` (needs |pat| == 2).
fn mk_kind(mask: NetworkFilterMask, pat: &str, empty: bool, anyof: bool, tag: bool, id: u64) -> NetworkFilter {
    let part = if empty {
        FilterPart::Empty
    } else if anyof {
        let b = pat.as_bytes();
        FilterPart::AnyOf(vec![one(b[0]), one(b[1])])
    } else {
        FilterPart::Simple(String::from(pat))
    };
    let mut f = mk(mask, pat, true, tag, id);
    f.filter = part;
    f
}
fn mk(mask: NetworkFilterMask, pat: &str, empty: bool, tag: bool, id: u64) -> NetworkFilter {
    NetworkFilter {
        mask,
        filter: if empty { FilterPart::Empty } else { FilterPart::Simple(String::from(pat)) },
        opt_domains: None,
        opt_not_domains: None,
        modifier_option: None,
        hostname: None,
        tag: if tag { Some(String::from("a")) } else { None },
        raw_line: None,
        id,
        opt_domains_union: None,
        opt_not_domains_union: None,
    }
}
/// the activation test NetworkFilterList::check applies to a matching rule
fn active(f: &NetworkFilter, tag_a_enabled: bool) -> bool {
    f.tag.is_none() || tag_a_enabled
}

/// two rules the grouping key allows to fuse (same mask — `format!("{:b}:{:?}", mask, is_complete_regex)` is
/// not executed), real select + fusion + per-rule matcher: the fused rule is active-and-matching iff some
/// member is. `e1`/`e2`: that member has an empty pattern (matches every URL).
fn fuse_kernel<const PN: usize, const UN: usize>(e1: bool, e2: bool, a1: bool) {
    let mut dr = crate::verif_shim::Draw::new();
    let b1: [u8; PN] = dr.bytes::<PN>();
    let l1: usize = dr.usize();
    let b2: [u8; PN] = dr.bytes::<PN>();
    let l2: usize = dr.usize();
    let ub: [u8; UN] = dr.bytes::<UN>();
    let ul: usize = dr.usize();
    let p1 = sym_ascii(&b1, l1);
    let p2 = sym_ascii(&b2, l2);
    let u = sym_ascii(&ub, ul);
    // which member has an empty pattern is fixed per harness (a symbolic choice makes every arm of fusion's
    // pattern merge symbolic: out of memory at 12 GB); the two draws keep the input layout uniform
    let (_e1, _e2): (bool, bool) = (dr.bool(), dr.bool());
    kani::assume(l1 >= 1 && l2 >= 1);
    let mask = NetworkFilterMask::from_bits_retain(dr.u32() & !KIND);
    let (t1, t2): (bool, bool) = (dr.bool(), dr.bool());
    if a1 {
        kani::assume(l1 == 2);
    }
    let f1 = mk_kind(mask, p1, e1, a1, t1, 1);
    let f2 = mk(mask, p2, e2, t2, 2);
    let rt = if dr.bool() { crate::request::RequestType::Script } else { crate::request::RequestType::Document };
    let req = crate::request::Request {
        request_type: rt,
        is_http: false,
        is_https: true,
        is_supported: true,
        is_third_party: dr.bool(),
        url: String::from(u),
        hostname: String::new(),
        source_hostname_hashes: None,
        url_lower_cased: String::from(u),
        request_tokens: vec![],
        original_url: String::new(),
    };
    let mut rm = RegexManager::default();
    let tag_on: bool = dr.bool();
    let m1 = f1.matches(&req, &mut rm);
    let m2 = f2.matches(&req, &mut rm);
    let want = (m1 && active(&f1, tag_on)) || (m2 && active(&f2, tag_on));
    let g = SimplePatternGroup {};
    let (s1, s2) = (g.select(&f1), g.select(&f2));
    if s1 && s2 {
        let fs = [f1, f2];
        let fused = g.fusion(&fs);
        let got = fused.matches(&req, &mut rm) && active(&fused, tag_on);
        assert!(got == want, "P:fuse.fused_rule_equals_disjunction_of_members");
        assert!(fused.mask.contains(NetworkFilterMask::IS_EXCEPTION) == mask.contains(NetworkFilterMask::IS_EXCEPTION)
            && fused.mask.contains(NetworkFilterMask::IS_IMPORTANT) == mask.contains(NetworkFilterMask::IS_IMPORTANT), "P:fuse.category_bits_kept");
        kani::cover!(got, "W:fuse.fused_matches");
        kani::cover!(!got && ul >= 1, "W:fuse.fused_rejects");
        kani::cover!(got && !m1, "W:fuse.second_member_decides");
        core::mem::forget(fused);
        core::mem::forget(fs);
    }
    kani::cover!(!s1 && t1, "W:fuse.tagged_rule_not_selected");
    core::mem::forget(req);
    core::mem::forget(rm);
}

/// eligibility: select refuses every rule whose extra fields a fused rule cannot represent
#[kani::proof]
#[kani::unwind(4)]
fn c05_select() {
    let mut dr = crate::verif_shim::Draw::new();
    let m: u32 = dr.u32();
    let mask = NetworkFilterMask::from_bits_retain(m);
    let (has_d, has_n, has_tag): (bool, bool, bool) = (dr.bool(), dr.bool(), dr.bool());
    let mut f = mk(mask, "a", false, has_tag, 1);
    if has_d {
        f.opt_domains = Some(vec![7]);
    }
    if has_n {
        f.opt_not_domains = Some(vec![9]);
    }
    let g = SimplePatternGroup {};
    let sel = g.select(&f);
    let must_refuse = has_d || has_n || has_tag || mask.contains(NetworkFilterMask::IS_HOSTNAME_ANCHOR) || mask.contains(NetworkFilterMask::IS_REDIRECT) || mask.contains(NetworkFilterMask::IS_CSP);
    assert!(!(sel && must_refuse), "P:select.refuses_domain_tag_redirect_csp_hostanchor");
    kani::cover!(sel, "W:select.plain_rule_selected");
    kani::cover!(!sel && has_tag && !has_d && !has_n, "W:select.tagged_refused");
    core::mem::forget(f);
}

macro_rules! fuse_harness {
    ($name:ident, $unw:literal, $p:literal, $u:literal, $e1:literal, $e2:literal, $a1:literal) => {
        #[kani::proof]
        #[kani::unwind($unw)]
        #[kani::stub(regex::Regex::new, crate::verif_shim::stub_regex_new)]
        #[kani::stub(regex::Regex::is_match, crate::verif_shim::stub_regex_is_match)]
        #[kani::stub(crate::regex_manager::RegexManager::matches, crate::verif_shim::stub_rm_matches)]
        #[kani::stub(std::time::Instant::now, crate::verif_shim::stub_instant_now)]
        fn $name() {
            fuse_kernel::<$p, $u>($e1, $e2, $a1);
        }
    };
}
fuse_harness!(c05_fuse, 6, 2, 3, false, false, false);
fuse_harness!(c05_fuse_e1, 6, 2, 3, true, false, false);
fuse_harness!(c05_fuse_e2, 6, 2, 3, false, true, false);
fuse_harness!(c05_fuse_anyof, 6, 2, 3, false, false, true);
fuse_harness!(c05_fuse_t, 7, 2, 4, false, false, false);
