//! C10.atomic — child module of src/engine.rs (container mode for blocker.rs / network_filter_list.rs).
use super::*;
use crate::network_filter_list::NetworkFilterList;
use crate::verif_shim::vm::HashSet;

/// The v0 body decoder is rmp-serde (out of reach): it is a black box that fails. Every failure of
/// Engine::deserialize — wrong magic, gzip header, unsupported version, truncated header, body error — must
/// leave the engine as it was: here the enabled tags, the optimisation flag and the (empty) rule lists.

fn empty_list() -> NetworkFilterList {
    NetworkFilterList { filter_map: crate::verif_shim::vm::HashMap::new() }
}

#[kani::proof]
#[kani::unwind(12)]
#[kani::stub(crate::data_format::v0::DeserializeFormat::deserialize, crate::data_format::verif_kani::stub_v0_deser)]
#[kani::stub(std::hash::RandomState::new, crate::verif_shim::stub_random_state_new)]
#[kani::stub(std::time::Instant::now, crate::verif_shim::stub_instant_now)]
#[kani::stub(regex::Regex::new, crate::verif_shim::stub_regex_new)]
#[kani::stub(regex::Regex::is_match, crate::verif_shim::stub_regex_is_match)]
#[kani::stub(crate::regex_manager::RegexManager::matches, crate::verif_shim::stub_rm_matches)]
fn c10_atomic() {
    let mut dr = crate::verif_shim::Draw::new();
    let buf: [u8; 8] = dr.bytes::<8>();
    let len: usize = dr.usize();
    kani::assume(len <= 8);
    let mut tags: HashSet<String> = HashSet::new();
    tags.insert(String::from("a"));
    let blocker = Blocker {
        csp: empty_list(),
        exceptions: empty_list(),
        importants: empty_list(),
        redirects: empty_list(),
        removeparam: empty_list(),
        filters_tagged: empty_list(),
        filters: empty_list(),
        generic_hide: empty_list(),
        tags_enabled: tags,
        tagged_filters_all: vec![],
        enable_optimizations: true,
        regex_manager: Default::default(),
    };
    let mut e = Engine { blocker, cosmetic_cache: CosmeticFilterCache::new(), resources: ResourceStorage::default() };
    let r = e.deserialize(&buf[..len]);
    assert!(r.is_err(), "P:atomic.every_buffer_fails_when_the_body_decoder_fails");
    let t = &e.blocker.tags_enabled;
    assert!(t.len() == 1 && t.0[0].len() == 1 && t.0[0].as_bytes()[0] == b'a', "P:atomic.enabled_tags_unchanged_after_error");
    assert!(e.blocker.enable_optimizations, "P:atomic.options_unchanged_after_error");
    assert!(e.blocker.filters.filter_map.is_empty() && e.blocker.exceptions.filter_map.is_empty(), "P:atomic.lists_unchanged_after_error");
    kani::cover!(len >= 5 && buf[0] == 0xd1 && buf[4] == 0, "W:atomic.body_error_path");
    kani::cover!(len == 0, "W:atomic.empty_buffer");
    core::mem::forget(e);
    core::mem::forget(r);
}
