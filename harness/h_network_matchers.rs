//! C02.anchor / C02.plain / C02.host.* / C03.opts / C10.rule — child module of src/filters/network_matchers.rs.
use super::*;
use crate::filters::network::FilterPart;

fn sym_ascii<const N: usize>(buf: &[u8; N], len: usize) -> &str {
    kani::assume(len <= N);
    let mut i = 0;
    while i < N {
        kani::assume(buf[i] < 0x80 && buf[i] >= 0x20);
        i += 1;
    }
    unsafe { core::str::from_utf8_unchecked(&buf[..len]) }
}
fn hostc(c: u8) -> bool {
    (c >= b'a' && c <= b'z') || (c >= b'0' && c <= b'9') || c == b'.' || c == b'-'
}
/// documented validity predicate of a request hostname: non-empty labels of [a-z0-9-] joined by single dots
fn assume_valid_host<const N: usize>(b: &[u8; N], len: usize) {
    kani::assume(len >= 1 && len <= N);
    let mut i = 0;
    while i < N {
        kani::assume(hostc(b[i]));
        if i < len && b[i] == b'.' {
            kani::assume(i > 0 && i + 1 < len);
            if i + 1 < N {
                kani::assume(b[i + 1] != b'.');
            }
        }
        i += 1;
    }
}
fn mk_req(url: &str, hostname: &str) -> request::Request {
    request::Request {
        request_type: request::RequestType::Script,
        is_http: false,
        is_https: true,
        is_supported: true,
        is_third_party: false,
        url: String::from(url),
        hostname: String::from(hostname),
        source_hostname_hashes: None,
        url_lower_cased: String::from(url),
        request_tokens: vec![],
        original_url: String::new(),
    }
}
fn eq_at(h: &[u8], p: usize, n: &[u8]) -> bool {
    if p + n.len() > h.len() {
        return false;
    }
    let mut j = 0;
    let mut eq = true;
    while j < n.len() {
        if h[p + j] != n[j] {
            eq = false;
        }
        j += 1;
    }
    eq
}

// -------------------------------------------------------------------------------------------- C02.anchor
/// reference: some occurrence of the filter host in the request host sits on label boundaries
fn ref_anchored(fh: &[u8], h: &[u8], wildcard: bool, maxp: usize) -> bool {
    if fh.len() == 0 {
        return true;
    }
    if fh.len() > h.len() {
        return false;
    }
    let mut p = 0;
    while p <= maxp {
        if p + fh.len() <= h.len() && eq_at(h, p, fh) {
            let left = p == 0 || fh[0] == b'.' || h[p - 1] == b'.';
            let e = p + fh.len();
            let right = e == h.len() || wildcard || fh[fh.len() - 1] == b'.' || h[e] == b'.';
            if left && right {
                return true;
            }
        }
        p += 1;
    }
    false
}

fn anchor_kernel<const FN: usize, const HN: usize>() {
    let mut dr = crate::verif_shim::Draw::new();
    let fb: [u8; FN] = dr.bytes::<FN>();
    let fl: usize = dr.usize();
    let hb: [u8; HN] = dr.bytes::<HN>();
    let hl: usize = dr.usize();
    let w: bool = dr.bool();
    kani::assume(fl <= FN);
    let mut i = 0;
    while i < FN {
        kani::assume(hostc(fb[i]));
        i += 1;
    }
    assume_valid_host(&hb, hl);
    let fh = unsafe { core::str::from_utf8_unchecked(&fb[..fl]) };
    let h = unsafe { core::str::from_utf8_unchecked(&hb[..hl]) };
    let got = is_anchored_by_hostname(fh, h, w);
    let want = ref_anchored(fh.as_bytes(), h.as_bytes(), w, HN);
    assert!(got == want, "P:anchor.label_boundary_semantics");
    kani::cover!(got && fl >= 1 && fl < hl, "W:anchor.proper_suboccurrence_anchors");
    kani::cover!(!got && fl >= 1 && fl < hl, "W:anchor.rejected");
}
#[kani::proof]
#[kani::unwind(9)]
fn c02_anchor() {
    anchor_kernel::<3, 6>();
}
#[kani::proof]
#[kani::unwind(10)]
fn c02_anchor_t() {
    anchor_kernel::<3, 7>();
}

// --------------------------------------------------------------------------------------------- C02.plain
macro_rules! std_harness {
    ($unw:literal, fn $name:ident() $body:block) => {
        #[kani::proof]
        #[kani::unwind($unw)]
        #[kani::stub(regex::Regex::new, crate::verif_shim::stub_regex_new)]
        #[kani::stub(regex::Regex::is_match, crate::verif_shim::stub_regex_is_match)]
        #[kani::stub(crate::regex_manager::RegexManager::matches, crate::verif_shim::stub_rm_matches)]
        #[kani::stub(std::time::Instant::now, crate::verif_shim::stub_instant_now)]
        fn $name() $body
    };
}

fn lower(c: u8) -> u8 {
    if c >= b'A' && c <= b'Z' {
        c + 32
    } else {
        c
    }
}

/// plain / left / right / left+right arms against substring / prefix / suffix / equality.
/// The rule pattern is stored lower-cased by the parser unless MATCH_CASE; the request carries both spellings.
fn plain_kernel<const FN: usize, const UN: usize>() {
    let mut dr = crate::verif_shim::Draw::new();
    let fb: [u8; FN] = dr.bytes::<FN>();
    let fl: usize = dr.usize();
    let ub: [u8; UN] = dr.bytes::<UN>();
    let ul: usize = dr.usize();
    let f = sym_ascii(&fb, fl);
    let u = sym_ascii(&ub, ul);
    kani::assume(fl >= 1);
    let (la, ra, mc): (bool, bool, bool) = (dr.bool(), dr.bool(), dr.bool());
    let mut mask = NetworkFilterMask::DEFAULT_OPTIONS;
    if la {
        mask |= NetworkFilterMask::IS_LEFT_ANCHOR;
    }
    if ra {
        mask |= NetworkFilterMask::IS_RIGHT_ANCHOR;
    }
    if mc {
        mask |= NetworkFilterMask::MATCH_CASE;
    }
    // lower-cased spelling of the URL, as Request stores it
    let mut lb = [0u8; UN];
    let mut i = 0;
    while i < UN {
        lb[i] = lower(ub[i]);
        i += 1;
    }
    let ulow = unsafe { core::str::from_utf8_unchecked(&lb[..ul]) };
    let mut req = mk_req(u, "");
    req.url_lower_cased = String::from(ulow);
    let mut rm = RegexManager::default();
    let part = FilterPart::Simple(String::from(f));
    let got = check_pattern(mask, part.iter(), None, 0, &req, &mut rm);
    // reference: compare against the spelling the mask selects
    let fbs = f.as_bytes();
    let hay: &[u8] = if mc { &ub[..ul] } else { &lb[..ul] };
    let mut any = false;
    let mut p = 0;
    while p <= UN {
        if p <= hay.len() && eq_at(hay, p, fbs) {
            any = true;
        }
        p += 1;
    }
    let want = if la && ra {
        fbs.len() == hay.len() && eq_at(hay, 0, fbs)
    } else if la {
        eq_at(hay, 0, fbs)
    } else if ra {
        fbs.len() <= hay.len() && eq_at(hay, hay.len() - fbs.len(), fbs)
    } else {
        any
    };
    assert!(got == want, "P:plain.anchor_semantics");
    kani::cover!(got && !la && !ra, "W:plain.substring_match");
    kani::cover!(got && la && ra, "W:plain.exact_match");
    kani::cover!(!got, "W:plain.no_match");
    core::mem::forget(req);
    core::mem::forget(rm);
    core::mem::forget(part);
}
std_harness!(7, fn c02_plain() { plain_kernel::<2, 4>(); });
std_harness!(8, fn c02_plain_t() { plain_kernel::<3, 5>(); });

// ---------------------------------------------------------------------------------------------- C02.host
/// `||fh` + remainder f, request URL = "s://" ++ host ++ tail with `hostname` = the host slice (the invariant
/// Request::new guarantees). Oracle: some label-boundary occurrence of fh in the host such that the remainder
/// matches the URL text directly after that occurrence (prefix for la, equal-to-end for la+ra).
/// Known role: the implementation cuts the URL after the FIRST occurrence of fh in the whole URL text.
fn host_kind<const HN: usize, const RN: usize, const UN: usize>(la: bool, ra: bool) {
    let mut dr = crate::verif_shim::Draw::new();
    let hb: [u8; HN] = dr.bytes::<HN>();
    let hl: usize = dr.usize();
    let rb: [u8; RN] = dr.bytes::<RN>();
    let rl: usize = dr.usize();
    let fb: [u8; 2] = dr.bytes::<2>();
    let fl: usize = dr.usize();
    let tb: [u8; 2] = dr.bytes::<2>();
    let tl: usize = dr.usize();
    kani::assume(hl >= 1 && hl <= HN);
    let mut i = 0;
    while i < HN {
        kani::assume(hostc(hb[i]));
        i += 1;
    }
    assume_valid_host(&rb, rl);
    let (f, tail) = (sym_ascii(&fb, fl), sym_ascii(&tb, tl));
    kani::assume(fl >= 1);
    // the remainder of a host-anchored rule starts at the first '/' of the pattern; a URL continues after the
    // host with '/', ':' or '?'
    kani::assume(fb[0] == b'/' && (tl == 0 || tb[0] == b'/' || tb[0] == b':' || tb[0] == b'?'));
    let fh = unsafe { core::str::from_utf8_unchecked(&hb[..hl]) };
    let rh = unsafe { core::str::from_utf8_unchecked(&rb[..rl]) };
    let mut url = String::from("s://");
    url.push_str(rh);
    url.push_str(tail);
    // copy of the URL bytes for the oracle (fixed-size, no heap read-back)
    let mut ub = [0u8; UN];
    let mut n = 0;
    ub[0] = b's'; ub[1] = b':'; ub[2] = b'/'; ub[3] = b'/';
    n += 4;
    let mut i = 0;
    while i < RN {
        if i < rl {
            ub[n] = rb[i];
            n += 1;
        }
        i += 1;
    }
    let mut i = 0;
    while i < 2 {
        if i < tl {
            ub[n] = tb[i];
            n += 1;
        }
        i += 1;
    }
    let req = mk_req(&url, rh);
    let mut mask = NetworkFilterMask::DEFAULT_OPTIONS | NetworkFilterMask::IS_HOSTNAME_ANCHOR;
    if la {
        mask |= NetworkFilterMask::IS_LEFT_ANCHOR;
    }
    if ra {
        mask |= NetworkFilterMask::IS_RIGHT_ANCHOR;
    }
    let part = FilterPart::Simple(String::from(f));
    let mut rm = RegexManager::default();
    let got = check_pattern(mask, part.iter(), Some(fh), 0, &req, &mut rm);
    let (fhb, rhb, fbs) = (fh.as_bytes(), rh.as_bytes(), f.as_bytes());
    let u = &ub[..n];
    // first occurrence of fh in the whole URL text "s://" ++ host ++ tail: fh consists of hostname characters, so
    // before the host it can only be the scheme letter itself
    let mut first = usize::MAX;
    if fhb.len() == 1 && fhb[0] == b's' {
        first = 0;
    }
    let mut q = 0;
    while q < RN {
        if first == usize::MAX && q + fhb.len() <= rhb.len() && eq_at(rhb, q, fhb) {
            first = 4 + q;
        }
        q += 1;
    }
    let mut want = false;
    let mut want_first = false;
    let mut p = 0;
    while p < RN {
        if p + fhb.len() <= rhb.len() && eq_at(rhb, p, fhb) {
            let e = p + fhb.len();
            let left = p == 0 || fhb[0] == b'.' || rhb[p - 1] == b'.';
            let right = e == rhb.len() || fhb[fhb.len() - 1] == b'.' || rhb[e] == b'.';
            if left && right {
                let start = 4 + e;
                let ok = eq_at(u, start, fbs) && (!ra || start + fbs.len() == n);
                if ok {
                    want = true;
                    if first == 4 + p {
                        want_first = true;
                    }
                }
            }
        }
        p += 1;
    }
    if want == want_first {
        assert!(got == want, "P:host.remainder_directly_after_host");
    } else {
        assert!(got == want, "K:remainder-after-first-occurrence-in-url:host.remainder");
    }
    kani::cover!(got, "W:host.match");
    kani::cover!(!got && want_first == want, "W:host.no_match");
    core::mem::forget(req);
    core::mem::forget(rm);
    core::mem::forget(part);
    core::mem::forget(url);
}
std_harness!(8, fn c02_host_left() { host_kind::<2, 3, 9>(true, false); });
std_harness!(8, fn c02_host_both() { host_kind::<2, 3, 9>(true, true); });

/// `||fh*f` (host-anchored, wildcard after the host text, then a literal that may occur anywhere later): the arm
/// `check_pattern_hostname_anchor_filter`. Its `str::contains` is replaced by the naive substring search of the
/// shim in the scratch copy (std's SIMD search does not finish under Kani). Oracle: some occurrence of fh in the
/// host starts at a label boundary, and f occurs in the URL text somewhere after that occurrence.
fn host_unanchored_kernel<const HN: usize, const RN: usize>() {
    let mut dr = crate::verif_shim::Draw::new();
    let hb: [u8; HN] = dr.bytes::<HN>();
    let hl: usize = dr.usize();
    let rb: [u8; RN] = dr.bytes::<RN>();
    let rl: usize = dr.usize();
    let fb: [u8; 2] = dr.bytes::<2>();
    let fl: usize = dr.usize();
    let tb: [u8; 2] = dr.bytes::<2>();
    let tl: usize = dr.usize();
    kani::assume(hl >= 1 && hl <= HN);
    let mut i = 0;
    while i < HN {
        kani::assume(hostc(hb[i]));
        i += 1;
    }
    assume_valid_host(&rb, rl);
    let (f, tail) = (sym_ascii(&fb, fl), sym_ascii(&tb, tl));
    kani::assume(fl >= 1);
    kani::assume(tl == 0 || tb[0] == b'/' || tb[0] == b':' || tb[0] == b'?');
    let fh = unsafe { core::str::from_utf8_unchecked(&hb[..hl]) };
    let rh = unsafe { core::str::from_utf8_unchecked(&rb[..rl]) };
    let mut url = String::from("s://");
    url.push_str(rh);
    url.push_str(tail);
    let mut ub = [0u8; 10];
    ub[0] = b's';
    ub[1] = b':';
    ub[2] = b'/';
    ub[3] = b'/';
    let mut n = 4;
    let mut i = 0;
    while i < RN {
        if i < rl {
            ub[n] = rb[i];
            n += 1;
        }
        i += 1;
    }
    let mut i = 0;
    while i < 2 {
        if i < tl {
            ub[n] = tb[i];
            n += 1;
        }
        i += 1;
    }
    let req = mk_req(&url, rh);
    let mask = NetworkFilterMask::DEFAULT_OPTIONS | NetworkFilterMask::IS_HOSTNAME_ANCHOR | NetworkFilterMask::IS_HOSTNAME_REGEX;
    let part = FilterPart::Simple(String::from(f));
    let mut rm = RegexManager::default();
    let got = check_pattern(mask, part.iter(), Some(fh), 0, &req, &mut rm);
    let (fhb, rhb, fbs) = (fh.as_bytes(), rh.as_bytes(), f.as_bytes());
    let u = &ub[..n];
    let mut first = usize::MAX;
    if fhb.len() == 1 && fhb[0] == b's' {
        first = 0;
    }
    let mut q = 0;
    while q < RN {
        if first == usize::MAX && q + fhb.len() <= rhb.len() && eq_at(rhb, q, fhb) {
            first = 4 + q;
        }
        q += 1;
    }
    let mut want = false;
    let mut p0 = usize::MAX; // first occurrence that starts at a label boundary
    let mut p = 0;
    while p < RN {
        if p + fhb.len() <= rhb.len() && eq_at(rhb, p, fhb) {
            let e = p + fhb.len();
            let left = p == 0 || fhb[0] == b'.' || rhb[p - 1] == b'.';
            if left && p0 == usize::MAX {
                p0 = p;
            }
            if left {
                // f anywhere at or after the end of this occurrence
                let mut k = 0;
                let mut occ = false;
                while k < 10 {
                    if k >= 4 + e && eq_at(u, k, fbs) {
                        occ = true;
                    }
                    k += 1;
                }
                if occ {
                    want = true;
                }
            }
        }
        p += 1;
    }
    // recorded role: the implementation cuts the URL after the FIRST occurrence of the filter host in the whole URL
    // text; it is the occurrence the semantics start from exactly when it is the first label-boundary occurrence
    // in the host (any later one only shortens the text to search)
    let cut_is_right = p0 != usize::MAX && first == 4 + p0;
    if cut_is_right || p0 == usize::MAX {
        assert!(got == want, "P:host_unanchored.literal_somewhere_after_the_host_text");
    } else {
        assert!(got == want, "K:remainder-after-first-occurrence-in-url:host_unanchored.remainder");
    }
    kani::cover!(got && cut_is_right, "W:host_unanchored.match");
    kani::cover!(!got && cut_is_right, "W:host_unanchored.no_match");
    core::mem::forget(req);
    core::mem::forget(rm);
    core::mem::forget(part);
    core::mem::forget(url);
}
std_harness!(12, fn c02_host_unanchored() { host_unanchored_kernel::<2, 3>(); });

// ---------------------------------------------------------------------------------------------- C03.opts
fn type_bit(t: u8) -> (request::RequestType, NetworkFilterMask) {
    use request::RequestType as R;
    use NetworkFilterMask as M;
    match t {
        0 => (R::Beacon, M::FROM_PING),
        1 => (R::Csp, M::UNMATCHED),
        2 => (R::Document, M::FROM_DOCUMENT),
        3 => (R::Dtd, M::FROM_OTHER),
        4 => (R::Fetch, M::FROM_OTHER),
        5 => (R::Font, M::FROM_FONT),
        6 => (R::Image, M::FROM_IMAGE),
        7 => (R::Media, M::FROM_MEDIA),
        8 => (R::Object, M::FROM_OBJECT),
        9 => (R::Other, M::FROM_OTHER),
        10 => (R::Ping, M::FROM_PING),
        11 => (R::Script, M::FROM_SCRIPT),
        12 => (R::Stylesheet, M::FROM_STYLESHEET),
        13 => (R::Subdocument, M::FROM_SUBDOCUMENT),
        14 => (R::Websocket, M::FROM_WEBSOCKET),
        15 => (R::Xlst, M::FROM_OTHER),
        _ => (R::Xmlhttprequest, M::FROM_XMLHTTPREQUEST),
    }
}
fn in3(v: &[u64; 3], n: usize, x: u64) -> bool {
    (n > 0 && v[0] == x) || (n > 1 && v[1] == x) || (n > 2 && v[2] == x)
}
fn to_vec(v: &[u64; 3], n: usize) -> Vec<u64> {
    if n == 0 {
        vec![]
    } else if n == 1 {
        vec![v[0]]
    } else if n == 2 {
        vec![v[0], v[1]]
    } else {
        vec![v[0], v[1], v[2]]
    }
}
fn union3(v: &[u64; 3], n: usize) -> u64 {
    let mut u = 0;
    if n > 0 {
        u |= v[0];
    }
    if n > 1 {
        u |= v[1];
    }
    if n > 2 {
        u |= v[2];
    }
    u
}

/// real check_options (+ check_cpt_allowed, From<&RequestType>) against the meaning of the mask bits
fn opts_kernel(max_list: usize, max_src: usize) {
    let mut dr = crate::verif_shim::Draw::new();
    let m: u32 = dr.u32();
    let mask = NetworkFilterMask::from_bits_retain(m);
    let t: u8 = dr.u8();
    kani::assume(t < 17);
    let (rt, bit) = type_bit(t);
    let inc: [u64; 3] = dr.u64s::<3>();
    let ni: usize = dr.usize();
    kani::assume(ni <= max_list && (ni < 2 || inc[0] < inc[1]) && (ni < 3 || inc[1] < inc[2]));
    let exc: [u64; 3] = dr.u64s::<3>();
    let ne: usize = dr.usize();
    kani::assume(ne <= max_list && (ne < 2 || exc[0] < exc[1]) && (ne < 3 || exc[1] < exc[2]));
    let src: [u64; 3] = dr.u64s::<3>();
    let ns: usize = dr.usize();
    kani::assume(ns <= max_src);
    let has_src: bool = dr.bool();
    let has_iu: bool = dr.bool();
    let has_eu: bool = dr.bool();
    let (http, https, tp): (bool, bool, bool) = (dr.bool(), dr.bool(), dr.bool());
    kani::assume(!(http && https));
    let incv = to_vec(&inc, ni);
    let excv = to_vec(&exc, ne);
    let srcv = to_vec(&src, ns);
    let iu = union3(&inc, ni);
    let eu = union3(&exc, ne);
    let req = request::Request {
        request_type: rt,
        is_http: http,
        is_https: https,
        is_supported: true,
        is_third_party: tp,
        url: String::new(),
        hostname: String::new(),
        source_hostname_hashes: if has_src { Some(srcv) } else { None },
        url_lower_cased: String::new(),
        request_tokens: vec![],
        original_url: String::new(),
    };
    // the union word is an optional pre-filter: present or absent, the verdict must be the same
    let got = check_options(
        mask,
        if ni > 0 { Some(&incv[..]) } else { None },
        if ni > 0 && has_iu { Some(iu) } else { None },
        if ne > 0 { Some(&excv[..]) } else { None },
        if ne > 0 && has_eu { Some(eu) } else { None },
        &req,
    );
    // reference over the meaning of the bits
    let bad = mask.contains(NetworkFilterMask::BAD_FILTER);
    let type_ok = if t == 2 {
        mask.contains(NetworkFilterMask::FROM_DOCUMENT) || mask.contains(NetworkFilterMask::IS_EXCEPTION)
    } else {
        mask.contains(bit)
    };
    let scheme_ok = (!https || mask.contains(NetworkFilterMask::FROM_HTTPS)) && (!http || mask.contains(NetworkFilterMask::FROM_HTTP));
    let party_ok = if tp { mask.contains(NetworkFilterMask::THIRD_PARTY) } else { mask.contains(NetworkFilterMask::FIRST_PARTY) };
    let src_in = |v: &[u64; 3], n: usize| has_src && ((ns > 0 && in3(v, n, src[0])) || (ns > 1 && in3(v, n, src[1])) || (ns > 2 && in3(v, n, src[2])));
    let inc_ok = ni == 0 || src_in(&inc, ni);
    let exc_ok = ne == 0 || !src_in(&exc, ne);
    let want = !bad && type_ok && scheme_ok && party_ok && inc_ok && exc_ok;
    assert!(got == want, "P:opts.option_semantics");
    if bad {
        assert!(!got, "P:opts.badfilter_never_matches");
    }
    kani::cover!(got && ni > 0 && ne > 0, "W:opts.match_with_both_lists");
    kani::cover!(!got && !bad && type_ok && scheme_ok && party_ok, "W:opts.rejected_by_domain_lists");
    kani::cover!(got && t == 2, "W:opts.document_request");
    core::mem::forget(req);
    core::mem::forget(incv);
    core::mem::forget(excv);
}
#[kani::proof]
#[kani::unwind(6)]
fn c03_opts() {
    opts_kernel(2, 2);
}
#[kani::proof]
#[kani::unwind(7)]
fn c03_opts_t() {
    opts_kernel(3, 3);
}

// ---------------------------------------------------------------------------------------------- C10.rule
/// "success => queries do not panic", rule-level core: a decoded rule is an arbitrary value — any of the 2^32
/// masks, every Option field present or absent independently of the mask. Hostname absent, pattern empty or a
/// fixed literal, a fixed well-formed request: check_pattern and check_options must return.
std_harness!(6, fn c10_rule_a() {
    let mut dr = crate::verif_shim::Draw::new();
    let m: u32 = dr.u32();
    // regex-kind arms with a pattern evaluate the regex crate (cut); with an empty pattern they return early
    let mask = NetworkFilterMask::from_bits_retain(m);
    let req = mk_req("s://a/", "a");
    let part = FilterPart::Empty;
    let mut rm = RegexManager::default();
    let r = check_pattern(mask, part.iter(), None, 0, &req, &mut rm);
    let o = check_options(mask, None, None, None, None, &req);
    kani::cover!(r, "W:rule_a.pattern_matches");
    kani::cover!(!r && mask.contains(NetworkFilterMask::IS_HOSTNAME_ANCHOR), "W:rule_a.host_anchor_no_hostname_returns_false");
    kani::cover!(o, "W:rule_a.options_pass");
    core::mem::forget(req);
    core::mem::forget(rm);
});

// ---------------------------------------------------------------------------------------------- C01.host
pub fn hpack(b: &[u8]) -> Hash {
    let mut h: u64 = b.len() as u64;
    let mut i = 0;
    while i < b.len() && i < 7 {
        h = (h << 8) | (b[i] as u64);
        i += 1;
    }
    h | (1u64 << 63)
}
static mut HMODE_B: bool = false;
static mut HA: [u64; 3] = [0; 3];
static mut HNA: usize = 0;
static mut HB: [u64; 6] = [0; 6];
static mut HNB: usize = 0;
pub fn stub_fast_hash_hab(input: &str) -> Hash {
    let h = hpack(input.as_bytes());
    unsafe {
        if HMODE_B {
            if HNB < 6 {
                HB[HNB] = h;
            }
            HNB += 1;
        } else {
            if HNA < 3 {
                HA[HNA] = h;
            }
            HNA += 1;
        }
    }
    h
}
/// hostname tokens are sound bucket keys: if the filter host anchors in the request host (no wildcard), every
/// token of the filter host is a token of the request URL "s://" ++ host ++ tail.
#[kani::proof]
#[kani::unwind(12)]
#[kani::stub(crate::utils::fast_hash, stub_fast_hash_hab)]
fn c01_host_tokens() {
    let mut dr = crate::verif_shim::Draw::new();
    let fb: [u8; 3] = dr.bytes::<3>();
    let fl: usize = dr.usize();
    let hb: [u8; 5] = dr.bytes::<5>();
    let hl: usize = dr.usize();
    let t: u8 = dr.u8();
    let has_t: bool = dr.bool();
    kani::assume(fl >= 1 && fl <= 3);
    let mut i = 0;
    while i < 3 {
        kani::assume(hostc(fb[i]));
        i += 1;
    }
    assume_valid_host(&hb, hl);
    kani::assume(t == b'/' || t == b':' || t == b'?');
    let fh = unsafe { core::str::from_utf8_unchecked(&fb[..fl]) };
    let h = unsafe { core::str::from_utf8_unchecked(&hb[..hl]) };
    let mut ub = [0u8; 10];
    ub[0] = b's';
    ub[1] = b':';
    ub[2] = b'/';
    ub[3] = b'/';
    let mut n = 4;
    let mut i = 0;
    while i < 5 {
        if i < hl {
            ub[n] = hb[i];
            n += 1;
        }
        i += 1;
    }
    if has_t {
        ub[n] = t;
        n += 1;
    }
    let url = unsafe { core::str::from_utf8_unchecked(&ub[..n]) };
    let anchored = is_anchored_by_hostname(fh, h, false);
    let mut va: Vec<Hash> = Vec::with_capacity(8);
    let mut vb: Vec<Hash> = Vec::with_capacity(8);
    unsafe {
        HMODE_B = false;
    }
    // what NetworkFilter::get_tokens does for the hostname of a rule without IS_HOSTNAME_REGEX
    utils::tokenize_pooled(fh, &mut va);
    unsafe {
        HMODE_B = true;
    }
    utils::tokenize_pooled(url, &mut vb);
    if anchored {
        unsafe {
            let mut k = 0;
            while k < 3 {
                if k < HNA {
                    let tk = HA[k];
                    let mut found = false;
                    let mut j = 0;
                    while j < 6 {
                        if j < HNB && HB[j] == tk {
                            found = true;
                        }
                        j += 1;
                    }
                    assert!(found, "P:host_tokens.tokens_of_an_anchoring_filter_host_are_url_tokens");
                }
                k += 1;
            }
            kani::cover!(HNA >= 1, "W:host_tokens.filter_host_has_token");
        }
    }
    kani::cover!(!anchored, "W:host_tokens.not_anchored");
    core::mem::forget(va);
    core::mem::forget(vb);
}
