//! C01.tok.* / C01.L1c — child module of src/utils.rs (reaches the private tokenizer core).
//!
//! Token soundness, model-free: the real tokenizer runs on the rule text (with the skip flags
//! `NetworkFilter::get_tokens` passes) and on a URL that contains the rule text at the anchored position;
//! both token streams are observed where they are produced (a recording `fast_hash` stub), and every rule
//! token must be among the URL tokens. No Vec is read back, no model of the tokenizer is involved.
use super::*;

pub fn alnum(c: u8) -> bool {
    (c >= b'0' && c <= b'9') || (c >= b'a' && c <= b'z') || (c >= b'A' && c <= b'Z') || c == b'%'
}

/// injective packing of (len, bytes) for strings <= 7 bytes: the property's no-collision assumption
pub fn pack(b: &[u8]) -> Hash {
    let mut h: u64 = b.len() as u64;
    let mut i = 0;
    while i < b.len() && i < 7 {
        h = (h << 8) | (b[i] as u64);
        i += 1;
    }
    h | (1u64 << 63)
}

static mut MODE_B: bool = false;
static mut RA: [u64; 4] = [0; 4];
static mut NA: usize = 0;
static mut RB: [u64; 6] = [0; 6];
static mut NB: usize = 0;
pub fn stub_fast_hash_ab(input: &str) -> Hash {
    let h = pack(input.as_bytes());
    unsafe {
        if MODE_B {
            if NB < 6 {
                RB[NB] = h;
            }
            NB += 1;
        } else {
            if NA < 4 {
                RA[NA] = h;
            }
            NA += 1;
        }
    }
    h
}

/// rule f: 1..=FN printable ASCII bytes without '*' / '^'; URL u = pre(0..=CTX) ++ f ++ post(0..=CTX),
/// no context on an anchored side.
fn direct_kind<const FN: usize, const UN: usize>(la: bool, ra: bool, ctx2: bool) {
    let mut dr = crate::verif_shim::Draw::new();
    let fb: [u8; FN] = dr.bytes::<FN>();
    let fl: usize = dr.usize();
    kani::assume(fl >= 1 && fl <= FN);
    let mut i = 0;
    while i < FN {
        kani::assume(fb[i] < 0x80 && fb[i] >= 0x20 && fb[i] != b'*' && fb[i] != b'^');
        i += 1;
    }
    let pre: u8 = dr.u8();
    let post: u8 = dr.u8();
    kani::assume(pre < 0x80 && pre >= 0x20 && post < 0x80 && post >= 0x20);
    let has_pre: bool = dr.bool();
    let has_post: bool = dr.bool();
    let pre2: u8 = dr.u8();
    let post2: u8 = dr.u8();
    let has_pre2: bool = dr.bool();
    let has_post2: bool = dr.bool();
    kani::assume(pre2 < 0x80 && pre2 >= 0x20 && post2 < 0x80 && post2 >= 0x20);
    if !ctx2 {
        kani::assume(!has_pre2 && !has_post2);
    }
    kani::assume(!has_pre2 || has_pre);
    kani::assume(!has_post2 || has_post);
    if la {
        kani::assume(!has_pre);
    }
    if ra {
        kani::assume(!has_post);
    }
    let mut ub = [b'/'; UN];
    let mut off = 0;
    if has_pre2 {
        ub[off] = pre2;
        off += 1;
    }
    if has_pre {
        ub[off] = pre;
        off += 1;
    }
    let mut i = 0;
    while i < FN {
        if i < fl {
            ub[off + i] = fb[i];
        }
        i += 1;
    }
    let mut n = off + fl;
    if has_post {
        ub[n] = post;
        n += 1;
    }
    if has_post2 {
        ub[n] = post2;
        n += 1;
    }
    let f = unsafe { core::str::from_utf8_unchecked(&fb[..fl]) };
    let u = unsafe { core::str::from_utf8_unchecked(&ub[..n]) };
    let allowed = |c: char| (c as u32) < 0x80 && alnum(c as u8);
    let mut va: Vec<Hash> = Vec::with_capacity(8);
    let mut vb: Vec<Hash> = Vec::with_capacity(8);
    unsafe {
        MODE_B = false;
    }
    // the flags NetworkFilter::get_tokens passes for a plain pattern (C01.flags ties them to the code)
    fast_tokenizer_no_regex(f, &allowed, ra, !ra, &mut va);
    unsafe {
        MODE_B = true;
    }
    fast_tokenizer_no_regex(u, &allowed, false, false, &mut vb);
    // role of the recorded defect: the rule's first run starts at offset 0 and the URL continues it to the left
    let mut e0 = 0;
    while e0 < fl && alnum(fb[e0]) {
        e0 += 1;
    }
    let h0 = pack(&fb[..e0]);
    let r1 = has_pre && alnum(pre) && e0 >= 1;
    // role of the second recorded defect: the URL has a literal '*' directly next to the occurrence; the
    // tokenizer applies the rule-side "skip tokens adjacent to '*'" logic to URLs as well
    // ... and only for the rule token that touches the star: the first run (pre == '*') or the last run (post == '*')
    let mut sl = fl;
    while sl > 0 && alnum(fb[sl - 1]) {
        sl -= 1;
    }
    let hl_last = pack(&fb[sl..fl]);
    let star_pre = has_pre && pre == b'*' && e0 >= 1;
    let star_post = has_post && post == b'*' && sl < fl;
    unsafe {
        assert!(NA <= 4 && NB <= 6, "P:tok.buffer_bound");
        let mut k = 0;
        while k < 4 {
            if k < NA {
                let t = RA[k];
                let mut found = false;
                let mut j = 0;
                while j < 6 {
                    if j < NB && RB[j] == t {
                        found = true;
                    }
                    j += 1;
                }
                if (star_pre && t == h0) || (star_post && t == hl_last) {
                    assert!(found, "K:url-token-next-to-literal-star:tok.subset");
                } else if r1 && t == h0 {
                    assert!(found, "K:first-token-left-unanchored:tok.subset");
                } else {
                    assert!(found, "P:tok.subset");
                }
            }
            k += 1;
        }
        kani::cover!(NA >= 1, "W:tok.rule_has_token");
        kani::cover!(NA >= 1 && NB >= 1 && RA[0] == RB[0], "W:tok.rule_token_probed");
    }
    core::mem::forget(va);
    core::mem::forget(vb);
}

#[kani::proof]
#[kani::unwind(9)]
#[kani::stub(crate::utils::fast_hash, stub_fast_hash_ab)]
fn c01_tok_left() {
    direct_kind::<5, 7>(true, false, false);
}
#[kani::proof]
#[kani::unwind(9)]
#[kani::stub(crate::utils::fast_hash, stub_fast_hash_ab)]
fn c01_tok_plain() {
    direct_kind::<5, 7>(false, false, false);
}
#[kani::proof]
#[kani::unwind(9)]
#[kani::stub(crate::utils::fast_hash, stub_fast_hash_ab)]
fn c01_tok_right() {
    direct_kind::<5, 7>(false, true, false);
}
#[kani::proof]
#[kani::unwind(9)]
#[kani::stub(crate::utils::fast_hash, stub_fast_hash_ab)]
fn c01_tok_both() {
    direct_kind::<5, 7>(true, true, false);
}

/// Wildcard patterns: rule f = a ++ "*" ++ b (a, b: 0..=3 printable ASCII bytes without '*'/'^'); a URL it matches
/// by construction under ABP semantics ('*' = any run): u = pre? ++ a ++ mid? ++ b ++ post?, no `pre` when
/// left-anchored, no `post` when right-anchored. Every token the tokenizer emits for the rule (with the flags
/// get_tokens passes for a regex-kind pattern: skip_first = ra, skip_last = !ra) must be a token of u.
fn star_kind(la: bool, ra: bool) {
    let mut dr = crate::verif_shim::Draw::new();
    let ab: [u8; 3] = dr.bytes::<3>();
    let al: usize = dr.usize();
    let bb: [u8; 3] = dr.bytes::<3>();
    let bl: usize = dr.usize();
    kani::assume(al <= 3 && bl <= 3);
    let mut i = 0;
    while i < 3 {
        kani::assume(ab[i] < 0x80 && ab[i] >= 0x20 && ab[i] != b'*' && ab[i] != b'^');
        kani::assume(bb[i] < 0x80 && bb[i] >= 0x20 && bb[i] != b'*' && bb[i] != b'^');
        i += 1;
    }
    let (pre, mid, post): (u8, u8, u8) = (dr.u8(), dr.u8(), dr.u8());
    kani::assume(pre < 0x80 && pre >= 0x20 && mid < 0x80 && mid >= 0x20 && post < 0x80 && post >= 0x20);
    let (has_pre, has_mid, has_post): (bool, bool, bool) = (dr.bool(), dr.bool(), dr.bool());
    if la {
        kani::assume(!has_pre);
    }
    if ra {
        kani::assume(!has_post);
    }
    // rule text
    let mut fb = [b'/'; 7];
    let mut fl = 0;
    let mut i = 0;
    while i < 3 {
        if i < al {
            fb[fl] = ab[i];
            fl += 1;
        }
        i += 1;
    }
    fb[fl] = b'*';
    fl += 1;
    let mut i = 0;
    while i < 3 {
        if i < bl {
            fb[fl] = bb[i];
            fl += 1;
        }
        i += 1;
    }
    // URL text
    let mut ub = [b'/'; 9];
    let mut n = 0;
    if has_pre {
        ub[n] = pre;
        n += 1;
    }
    let mut i = 0;
    while i < 3 {
        if i < al {
            ub[n] = ab[i];
            n += 1;
        }
        i += 1;
    }
    if has_mid {
        ub[n] = mid;
        n += 1;
    }
    let mut i = 0;
    while i < 3 {
        if i < bl {
            ub[n] = bb[i];
            n += 1;
        }
        i += 1;
    }
    if has_post {
        ub[n] = post;
        n += 1;
    }
    let f = unsafe { core::str::from_utf8_unchecked(&fb[..fl]) };
    let u = unsafe { core::str::from_utf8_unchecked(&ub[..n]) };
    let allowed = |c: char| (c as u32) < 0x80 && alnum(c as u8);
    let mut va: Vec<Hash> = Vec::with_capacity(8);
    let mut vb: Vec<Hash> = Vec::with_capacity(8);
    unsafe {
        MODE_B = false;
    }
    fast_tokenizer_no_regex(f, &allowed, ra, !ra, &mut va);
    unsafe {
        MODE_B = true;
    }
    fast_tokenizer_no_regex(u, &allowed, false, false, &mut vb);
    // recorded roles: the first run of `a` continued to the left by the URL; a literal '*' in the URL next to it
    let mut e0 = 0;
    while e0 < al && alnum(ab[e0]) {
        e0 += 1;
    }
    let h0 = pack(&ab[..e0]);
    let r1 = has_pre && alnum(pre) && e0 >= 1;
    let star_url = (has_pre && pre == b'*') || (has_post && post == b'*') || (has_mid && mid == b'*');
    unsafe {
        assert!(NA <= 4 && NB <= 6, "P:star.buffer_bound");
        let mut k = 0;
        while k < 4 {
            if k < NA {
                let t = RA[k];
                let mut found = false;
                let mut j = 0;
                while j < 6 {
                    if j < NB && RB[j] == t {
                        found = true;
                    }
                    j += 1;
                }
                if star_url {
                    assert!(found, "K:url-token-next-to-literal-star:star.subset");
                } else if r1 && t == h0 {
                    assert!(found, "K:first-token-left-unanchored:star.subset");
                } else {
                    assert!(found, "P:star.tokens_next_to_a_wildcard_are_never_bucket_keys");
                }
            }
            k += 1;
        }
        kani::cover!(NA >= 1, "W:star.rule_has_token");
    }
    core::mem::forget(va);
    core::mem::forget(vb);
}
macro_rules! star_harness {
    ($name:ident, $la:expr, $ra:expr) => {
        #[kani::proof]
        #[kani::unwind(11)]
        #[kani::stub(crate::utils::fast_hash, stub_fast_hash_ab)]
        fn $name() {
            star_kind($la, $ra);
        }
    };
}
star_harness!(c01_star_plain, false, false);
star_harness!(c01_star_right, false, true);
star_harness!(c01_star_left, true, false);
star_harness!(c01_star_both, true, true);

// thorough: two context bytes on each unanchored side (rule <= 4 so the URL stays <= 8 bytes)
#[kani::proof]
#[kani::unwind(10)]
#[kani::stub(crate::utils::fast_hash, stub_fast_hash_ab)]
fn c01_tok2_left() {
    direct_kind::<4, 8>(true, false, true);
}
#[kani::proof]
#[kani::unwind(10)]
#[kani::stub(crate::utils::fast_hash, stub_fast_hash_ab)]
fn c01_tok2_plain() {
    direct_kind::<4, 8>(false, false, true);
}
#[kani::proof]
#[kani::unwind(10)]
#[kani::stub(crate::utils::fast_hash, stub_fast_hash_ab)]
fn c01_tok2_right() {
    direct_kind::<4, 8>(false, true, true);
}

/// C01.L1c: on ASCII the real token-character predicate is exactly [0-9A-Za-z%] (ties the closure above to the code)
#[kani::proof]
#[kani::unwind(40)]
fn c01_l1c() {
    let mut dr = crate::verif_shim::Draw::new();
    let c: u8 = dr.u8();
    kani::assume(c < 0x80);
    assert!(is_allowed_filter(c as char) == alnum(c), "P:l1c.ascii_predicate");
    kani::cover!(is_allowed_filter(c as char), "W:l1c.allowed");
    kani::cover!(!is_allowed_filter(c as char), "W:l1c.not_allowed");
}

/// C01.bin: `bin_lookup` (used for domain-option membership) agrees with linear membership on sorted arrays
#[kani::proof]
#[kani::unwind(6)]
fn c01_bin_lookup() {
    let mut dr = crate::verif_shim::Draw::new();
    let a: [u64; 3] = dr.u64s::<3>();
    let n: usize = dr.usize();
    kani::assume(n <= 3);
    kani::assume(n < 2 || a[0] <= a[1]);
    kani::assume(n < 3 || a[1] <= a[2]);
    let x: u64 = dr.u64();
    let got = bin_lookup(&a[..n], x);
    let want = (n > 0 && a[0] == x) || (n > 1 && a[1] == x) || (n > 2 && a[2] == x);
    assert!(got == want, "P:bin_lookup.membership");
    kani::cover!(got, "W:bin_lookup.found");
}
