//! C08.rule — child module of src/data_format/v0.rs (reaches the private wire structs).
use super::*;
use crate::filters::network::{FilterPart, NetworkFilterMask};

/// models rmp-serde as a faithful field-wise codec; reads the wire structs' fields by name, so a change of
/// the format that adds or drops a field stops this compiling (reported as "encoding broken", exit 2)
fn bridge(s: &NetworkFilterV0SerializeFmt<'_>) -> NetworkFilterV0DeserializeFmt {
    NetworkFilterV0DeserializeFmt {
        mask: *s.mask,
        filter: s.filter.clone(),
        opt_domains: s.opt_domains.clone(),
        opt_not_domains: s.opt_not_domains.clone(),
        redirect: s.redirect.clone(),
        hostname: s.hostname.clone(),
        csp: s.csp.clone(),
        _bug: s._bug,
        tag: s.tag.clone(),
        raw_line: s.raw_line.clone(),
        id: *s.id,
        opt_domains_union: *s.opt_domains_union,
        opt_not_domains_union: *s.opt_not_domains_union,
    }
}
fn opt_str(present: bool, c: u8) -> Option<String> {
    if present {
        let mut s = String::new();
        s.push(c as char);
        Some(s)
    } else {
        None
    }
}
fn opt_str_eq(a: &Option<String>, b: &Option<String>) -> bool {
    match (a, b) {
        (None, None) => true,
        (Some(x), Some(y)) => x.len() == y.len() && (x.len() == 0 || x.as_bytes()[0] == y.as_bytes()[0]),
        _ => false,
    }
}
fn opt_vec_eq(a: &Option<Vec<u64>>, b: &Option<Vec<u64>>) -> bool {
    match (a, b) {
        (None, None) => true,
        (Some(x), Some(y)) => x.len() == y.len() && (x.len() == 0 || x[0] == y[0]) && (x.len() < 2 || x[1] == y[1]),
        _ => false,
    }
}

/// arbitrary rule value -> wire struct -> rule value: every field that matching, tag gating, id ordering or
/// modifier consumers read is unchanged.
fn rule_kernel(two_domains: bool) {
    let mut dr = crate::verif_shim::Draw::new();
    let m: u32 = dr.u32();
    let (has_mod, has_host, has_tag, has_raw): (bool, bool, bool, bool) = (dr.bool(), dr.bool(), dr.bool(), dr.bool());
    let (cm, ch, ct, cr, cf): (u8, u8, u8, u8, u8) = (dr.u8(), dr.u8(), dr.u8(), dr.u8(), dr.u8());
    kani::assume(cm < 0x80 && ch < 0x80 && ct < 0x80 && cr < 0x80 && cf < 0x80);
    let fk: u8 = dr.u8();
    kani::assume(fk < 3);
    let (nd, nn): (u8, u8) = (dr.u8(), dr.u8());
    kani::assume(nd <= 2 && nn <= 2);
    if !two_domains {
        kani::assume(nd <= 1 && nn <= 1);
    }
    let (d0, d1, n0, n1): (u64, u64, u64, u64) = (dr.u64(), dr.u64(), dr.u64(), dr.u64());
    let (has_du, has_nu): (bool, bool) = (dr.bool(), dr.bool());
    let (du, nu): (u64, u64) = (dr.u64(), dr.u64());
    let id: u64 = dr.u64();
    let mk_part = |k: u8, c: u8| -> FilterPart {
        let mut s = String::new();
        s.push(c as char);
        match k {
            0 => FilterPart::Empty,
            1 => FilterPart::Simple(s),
            _ => FilterPart::AnyOf(vec![s, String::from("z")]),
        }
    };
    let mk_vec = |n: u8, a: u64, b: u64| -> Option<Vec<u64>> {
        match n {
            0 => None,
            1 => Some(vec![a]),
            _ => Some(vec![a, b]),
        }
    };
    let nf = NetworkFilter {
        mask: NetworkFilterMask::from_bits_retain(m),
        filter: mk_part(fk, cf),
        opt_domains: mk_vec(nd, d0, d1),
        opt_not_domains: mk_vec(nn, n0, n1),
        modifier_option: opt_str(has_mod, cm),
        hostname: opt_str(has_host, ch),
        tag: opt_str(has_tag, ct),
        raw_line: opt_str(has_raw, cr).map(Box::new),
        id,
        opt_domains_union: if has_du { Some(du) } else { None },
        opt_not_domains_union: if has_nu { Some(nu) } else { None },
    };
    let ser: NetworkFilterV0SerializeFmt<'_> = (&nf).into();
    let back: NetworkFilter = bridge(&ser).into();
    assert!(back.mask == nf.mask, "P:rule.mask");
    assert!(back.id == nf.id, "P:rule.id");
    assert!(opt_str_eq(&back.hostname, &nf.hostname), "P:rule.hostname");
    assert!(opt_str_eq(&back.tag, &nf.tag), "P:rule.tag");
    assert!(opt_vec_eq(&back.opt_domains, &nf.opt_domains) && opt_vec_eq(&back.opt_not_domains, &nf.opt_not_domains), "P:rule.domain_lists");
    assert!(back.opt_domains_union == nf.opt_domains_union && back.opt_not_domains_union == nf.opt_not_domains_union, "P:rule.domain_unions");
    let part_eq = match (&back.filter, &nf.filter) {
        (FilterPart::Empty, FilterPart::Empty) => true,
        (FilterPart::Simple(a), FilterPart::Simple(b)) => a.len() == 1 && b.len() == 1 && a.as_bytes()[0] == b.as_bytes()[0],
        (FilterPart::AnyOf(a), FilterPart::AnyOf(b)) => a.len() == 2 && b.len() == 2 && a[0].as_bytes()[0] == b[0].as_bytes()[0] && a[1].as_bytes()[0] == b[1].as_bytes()[0],
        _ => false,
    };
    assert!(part_eq, "P:rule.pattern");
    assert!(back.raw_line.is_some() == nf.raw_line.is_some(), "P:rule.raw_line");
    let carried = nf.mask.contains(NetworkFilterMask::IS_REDIRECT) || nf.mask.contains(NetworkFilterMask::IS_CSP);
    if carried || !has_mod {
        assert!(opt_str_eq(&back.modifier_option, &nf.modifier_option), "P:rule.modifier_option_of_redirect_and_csp_rules");
    } else {
        assert!(opt_str_eq(&back.modifier_option, &nf.modifier_option), "K:modifier-option-only-kept-for-redirect-and-csp:rule.modifier_option");
    }
    kani::cover!(has_mod && carried && has_tag && has_host, "W:rule.full_rule_roundtrip");
    kani::cover!(fk == 2 && nd == 1, "W:rule.anyof_with_domain");
    core::mem::forget(back);
    core::mem::forget(nf);
}
#[kani::proof]
#[kani::unwind(6)]
fn c08_rule() {
    rule_kernel(false);
}
#[kani::proof]
#[kani::unwind(6)]
fn c08_rule_t() {
    rule_kernel(true);
}
