//! C08.rule — child module of src/data_format/v0.rs (reaches the private wire structs).
use super::*;
use crate::filters::network::{FilterPart, NetworkFilterMask};

/// models rmp-serde as a faithful field-wise codec; reads the wire structs' fields by name, so a change of
/// the format that adds or drops a field stops this compiling (reported as "encoding broken", exit 2)
fn bridge(s: &NetworkFilterV0SerializeFmt<'_>) -> NetworkFilterV0DeserializeFmt {
    NetworkFilterV0DeserializeFmt {
        mask: *s.mask,
        filter: s.filter.clone(),
        opt_domains: s.opt_domains.clone(),
        opt_not_domains: s.opt_not_domains.clone(),
        redirect: s.redirect.clone(),
        hostname: s.hostname.clone(),
        csp: s.csp.clone(),
        _bug: s._bug,
        tag: s.tag.clone(),
        raw_line: s.raw_line.clone(),
        id: *s.id,
        opt_domains_union: *s.opt_domains_union,
        opt_not_domains_union: *s.opt_not_domains_union,
    }
}
fn opt_str(present: bool, c: u8) -> Option<String> {
    if present {
        let mut s = String::new();
        s.push(c as char);
        Some(s)
    } else {
        None
    }
}
fn opt_str_eq(a: &Option<String>, b: &Option<String>) -> bool {
    match (a, b) {
        (None, None) => true,
        (Some(x), Some(y)) => x.len() == y.len() && (x.len() == 0 || x.as_bytes()[0] == y.as_bytes()[0]),
        _ => false,
    }
}
fn opt_vec_eq(a: &Option<Vec<u64>>, b: &Option<Vec<u64>>) -> bool {
    match (a, b) {
        (None, None) => true,
        (Some(x), Some(y)) => x.len() == y.len() && (x.len() == 0 || x[0] == y[0]) && (x.len() < 2 || x[1] == y[1]),
        _ => false,
    }
}

fn roundtrip(nf: &NetworkFilter) -> NetworkFilter {
    let ser: NetworkFilterV0SerializeFmt<'_> = nf.into();
    bridge(&ser).into()
}
fn blank(mask: NetworkFilterMask) -> NetworkFilter {
    NetworkFilter {
        mask,
        filter: FilterPart::Empty,
        opt_domains: None,
        opt_not_domains: None,
        modifier_option: None,
        hostname: None,
        tag: None,
        raw_line: None,
        id: 0,
        opt_domains_union: None,
        opt_not_domains_union: None,
    }
}

/// arbitrary rule value -> wire struct -> rule value, part 1: mask (all 2^32), id, modifier / hostname / tag /
/// raw_line each absent or a 1-byte string.
#[kani::proof]
#[kani::unwind(6)]
fn c08_rule() {
    let mut dr = crate::verif_shim::Draw::new();
    let m: u32 = dr.u32();
    let (has_mod, has_host, has_tag, has_raw): (bool, bool, bool, bool) = (dr.bool(), dr.bool(), dr.bool(), dr.bool());
    let (cm, ch, ct, cr): (u8, u8, u8, u8) = (dr.u8(), dr.u8(), dr.u8(), dr.u8());
    kani::assume(cm < 0x80 && ch < 0x80 && ct < 0x80 && cr < 0x80);
    let id: u64 = dr.u64();
    let mut nf = blank(NetworkFilterMask::from_bits_retain(m));
    nf.modifier_option = opt_str(has_mod, cm);
    nf.hostname = opt_str(has_host, ch);
    nf.tag = opt_str(has_tag, ct);
    nf.raw_line = opt_str(has_raw, cr).map(Box::new);
    nf.id = id;
    let back = roundtrip(&nf);
    assert!(back.mask == nf.mask, "P:rule.mask");
    assert!(back.id == nf.id, "P:rule.id");
    assert!(opt_str_eq(&back.hostname, &nf.hostname), "P:rule.hostname");
    assert!(opt_str_eq(&back.tag, &nf.tag), "P:rule.tag");
    assert!(back.raw_line.is_some() == nf.raw_line.is_some(), "P:rule.raw_line");
    assert!(matches!(back.filter, FilterPart::Empty), "P:rule.pattern");
    assert!(back.opt_domains.is_none() && back.opt_not_domains.is_none() && back.opt_domains_union.is_none() && back.opt_not_domains_union.is_none(), "P:rule.domain_lists");
    let carried = nf.mask.contains(NetworkFilterMask::IS_REDIRECT) || nf.mask.contains(NetworkFilterMask::IS_CSP);
    if carried || !has_mod {
        assert!(opt_str_eq(&back.modifier_option, &nf.modifier_option), "P:rule.modifier_option_of_redirect_and_csp_rules");
    } else {
        assert!(opt_str_eq(&back.modifier_option, &nf.modifier_option), "K:modifier-option-only-kept-for-redirect-and-csp:rule.modifier_option");
    }
    kani::cover!(has_mod && carried && has_tag && has_host, "W:rule.full_rule_roundtrip");
    kani::cover!(!has_mod && !has_host && !has_tag && !has_raw, "W:rule.bare_rule");
    core::mem::forget(back);
    core::mem::forget(nf);
}

/// part 2: domain lists (0..=2 hashes each) and union words, present/absent independently
#[kani::proof]
#[kani::unwind(6)]
fn c08_rule_domains() {
    let mut dr = crate::verif_shim::Draw::new();
    let (nd, nn): (u8, u8) = (dr.u8(), dr.u8());
    kani::assume(nd <= 2 && nn <= 2);
    let (d0, d1, n0, n1): (u64, u64, u64, u64) = (dr.u64(), dr.u64(), dr.u64(), dr.u64());
    let (has_du, has_nu): (bool, bool) = (dr.bool(), dr.bool());
    let (du, nu): (u64, u64) = (dr.u64(), dr.u64());
    let mk_vec = |n: u8, a: u64, b: u64| -> Option<Vec<u64>> {
        match n {
            0 => None,
            1 => Some(vec![a]),
            _ => Some(vec![a, b]),
        }
    };
    let mut nf = blank(NetworkFilterMask::DEFAULT_OPTIONS);
    nf.opt_domains = mk_vec(nd, d0, d1);
    nf.opt_not_domains = mk_vec(nn, n0, n1);
    nf.opt_domains_union = if has_du { Some(du) } else { None };
    nf.opt_not_domains_union = if has_nu { Some(nu) } else { None };
    let back = roundtrip(&nf);
    assert!(opt_vec_eq(&back.opt_domains, &nf.opt_domains), "P:rule.domain_lists.included");
    assert!(opt_vec_eq(&back.opt_not_domains, &nf.opt_not_domains), "P:rule.domain_lists.excluded");
    assert!(back.opt_domains_union == nf.opt_domains_union, "P:rule.domain_unions.included");
    assert!(back.opt_not_domains_union == nf.opt_not_domains_union, "P:rule.domain_unions.excluded");
    kani::cover!(nd == 2 && nn == 1 && has_du && !has_nu, "W:rule.mixed_domain_lists");
    core::mem::forget(back);
    core::mem::forget(nf);
}

/// part 3: pattern Simple / AnyOf (Empty is part 1). The variant is fixed per harness: a symbolic choice of
/// the enum variant makes every clone/drop arm symbolic (out of memory at 8 GB).
fn pattern_kernel(anyof: bool) {
    let mut dr = crate::verif_shim::Draw::new();
    let (c0, c1): (u8, u8) = (dr.u8(), dr.u8());
    kani::assume(c0 < 0x80 && c1 < 0x80);
    let one = |c: u8| -> String {
        let mut s = String::new();
        s.push(c as char);
        s
    };
    let mut nf = blank(NetworkFilterMask::DEFAULT_OPTIONS);
    nf.filter = if anyof { FilterPart::AnyOf(vec![one(c0), one(c1)]) } else { FilterPart::Simple(one(c0)) };
    let back = roundtrip(&nf);
    let part_eq = match (&back.filter, &nf.filter) {
        (FilterPart::Simple(a), FilterPart::Simple(b)) => a.len() == 1 && b.len() == 1 && a.as_bytes()[0] == b.as_bytes()[0],
        (FilterPart::AnyOf(a), FilterPart::AnyOf(b)) => a.len() == 2 && b.len() == 2 && a[0].as_bytes()[0] == b[0].as_bytes()[0] && a[1].as_bytes()[0] == b[1].as_bytes()[0],
        _ => false,
    };
    assert!(part_eq, "P:rule.pattern");
    kani::cover!(part_eq && c0 != c1, "W:rule.pattern_roundtrip");
    core::mem::forget(back);
    core::mem::forget(nf);
}
#[kani::proof]
#[kani::unwind(6)]
fn c08_rule_pattern_simple() {
    pattern_kernel(false);
}
#[kani::proof]
#[kani::unwind(6)]
fn c08_rule_pattern_anyof() {
    pattern_kernel(true);
}
