//! C08.rule — child module of src/data_format/v0.rs (reaches the private wire structs).
use super::*;
use crate::filters::network::{FilterPart, NetworkFilterMask};

/// models rmp-serde as a faithful field-wise codec; reads the wire structs' fields by name, so a change of
/// the format that adds or drops a field stops this compiling (reported as "encoding broken", exit 2)
fn bridge(s: &NetworkFilterV0SerializeFmt<'_>) -> NetworkFilterV0DeserializeFmt {
    NetworkFilterV0DeserializeFmt {
        mask: *s.mask,
        filter: s.filter.clone(),
        opt_domains: s.opt_domains.clone(),
        opt_not_domains: s.opt_not_domains.clone(),
        redirect: s.redirect.clone(),
        hostname: s.hostname.clone(),
        csp: s.csp.clone(),
        _bug: s._bug,
        tag: s.tag.clone(),
        raw_line: s.raw_line.clone(),
        id: *s.id,
        opt_domains_union: *s.opt_domains_union,
        opt_not_domains_union: *s.opt_not_domains_union,
    }
}
fn opt_str(present: bool, c: u8) -> Option<String> {
    if present {
        let mut s = String::new();
        s.push(c as char);
        Some(s)
    } else {
        None
    }
}
fn opt_str_eq(a: &Option<String>, b: &Option<String>) -> bool {
    match (a, b) {
        (None, None) => true,
        (Some(x), Some(y)) => x.len() == y.len() && (x.len() == 0 || x.as_bytes()[0] == y.as_bytes()[0]),
        _ => false,
    }
}
fn opt_vec_eq(a: &Option<Vec<u64>>, b: &Option<Vec<u64>>) -> bool {
    match (a, b) {
        (None, None) => true,
        (Some(x), Some(y)) => x.len() == y.len() && (x.len() == 0 || x[0] == y[0]) && (x.len() < 2 || x[1] == y[1]),
        _ => false,
    }
}

fn roundtrip(nf: &NetworkFilter) -> NetworkFilter {
    let ser: NetworkFilterV0SerializeFmt<'_> = nf.into();
    bridge(&ser).into()
}
fn blank(mask: NetworkFilterMask) -> NetworkFilter {
    NetworkFilter {
        mask,
        filter: FilterPart::Empty,
        opt_domains: None,
        opt_not_domains: None,
        modifier_option: None,
        hostname: None,
        tag: None,
        raw_line: None,
        id: 0,
        opt_domains_union: None,
        opt_not_domains_union: None,
    }
}

/// arbitrary rule value -> wire struct -> rule value, part 1: mask (all 2^32), id, modifier / hostname / tag /
/// raw_line each absent or a 1-byte string.
#[kani::proof]
#[kani::unwind(6)]
fn c08_rule() {
    let mut dr = crate::verif_shim::Draw::new();
    let m: u32 = dr.u32();
    let (has_mod, has_host, has_tag, has_raw): (bool, bool, bool, bool) = (dr.bool(), dr.bool(), dr.bool(), dr.bool());
    let (cm, ch, ct, cr): (u8, u8, u8, u8) = (dr.u8(), dr.u8(), dr.u8(), dr.u8());
    kani::assume(cm < 0x80 && ch < 0x80 && ct < 0x80 && cr < 0x80);
    let id: u64 = dr.u64();
    let mut nf = blank(NetworkFilterMask::from_bits_retain(m));
    nf.modifier_option = opt_str(has_mod, cm);
    nf.hostname = opt_str(has_host, ch);
    nf.tag = opt_str(has_tag, ct);
    nf.raw_line = opt_str(has_raw, cr).map(Box::new);
    nf.id = id;
    let back = roundtrip(&nf);
    assert!(back.mask == nf.mask, "P:rule.mask");
    assert!(back.id == nf.id, "P:rule.id");
    assert!(opt_str_eq(&back.hostname, &nf.hostname), "P:rule.hostname");
    assert!(opt_str_eq(&back.tag, &nf.tag), "P:rule.tag");
    assert!(back.raw_line.is_some() == nf.raw_line.is_some(), "P:rule.raw_line");
    assert!(matches!(back.filter, FilterPart::Empty), "P:rule.pattern");
    assert!(back.opt_domains.is_none() && back.opt_not_domains.is_none() && back.opt_domains_union.is_none() && back.opt_not_domains_union.is_none(), "P:rule.domain_lists");
    let carried = nf.mask.contains(NetworkFilterMask::IS_REDIRECT) || nf.mask.contains(NetworkFilterMask::IS_CSP);
    if carried || !has_mod {
        assert!(opt_str_eq(&back.modifier_option, &nf.modifier_option), "P:rule.modifier_option_of_redirect_and_csp_rules");
    } else {
        assert!(opt_str_eq(&back.modifier_option, &nf.modifier_option), "K:modifier-option-only-kept-for-redirect-and-csp:rule.modifier_option");
    }
    kani::cover!(has_mod && carried && has_tag && has_host, "W:rule.full_rule_roundtrip");
    kani::cover!(!has_mod && !has_host && !has_tag && !has_raw, "W:rule.bare_rule");
    core::mem::forget(back);
    core::mem::forget(nf);
}

/// part 2: domain lists (0..=2 hashes each) and union words, present/absent independently
#[kani::proof]
#[kani::unwind(6)]
fn c08_rule_domains() {
    let mut dr = crate::verif_shim::Draw::new();
    let (nd, nn): (u8, u8) = (dr.u8(), dr.u8());
    kani::assume(nd <= 2 && nn <= 2);
    let (d0, d1, n0, n1): (u64, u64, u64, u64) = (dr.u64(), dr.u64(), dr.u64(), dr.u64());
    let (has_du, has_nu): (bool, bool) = (dr.bool(), dr.bool());
    let (du, nu): (u64, u64) = (dr.u64(), dr.u64());
    let mk_vec = |n: u8, a: u64, b: u64| -> Option<Vec<u64>> {
        match n {
            0 => None,
            1 => Some(vec![a]),
            _ => Some(vec![a, b]),
        }
    };
    let mut nf = blank(NetworkFilterMask::DEFAULT_OPTIONS);
    nf.opt_domains = mk_vec(nd, d0, d1);
    nf.opt_not_domains = mk_vec(nn, n0, n1);
    nf.opt_domains_union = if has_du { Some(du) } else { None };
    nf.opt_not_domains_union = if has_nu { Some(nu) } else { None };
    let back = roundtrip(&nf);
    assert!(opt_vec_eq(&back.opt_domains, &nf.opt_domains), "P:rule.domain_lists.included");
    assert!(opt_vec_eq(&back.opt_not_domains, &nf.opt_not_domains), "P:rule.domain_lists.excluded");
    assert!(back.opt_domains_union == nf.opt_domains_union, "P:rule.domain_unions.included");
    assert!(back.opt_not_domains_union == nf.opt_not_domains_union, "P:rule.domain_unions.excluded");
    kani::cover!(nd == 2 && nn == 1 && has_du && !has_nu, "W:rule.mixed_domain_lists");
    core::mem::forget(back);
    core::mem::forget(nf);
}

/// part 3: pattern Simple / AnyOf (Empty is part 1). The variant is fixed per harness: a symbolic choice of
/// the enum variant makes every clone/drop arm symbolic (out of memory at 8 GB).
fn pattern_kernel(anyof: bool) {
    let mut dr = crate::verif_shim::Draw::new();
    let (c0, c1): (u8, u8) = (dr.u8(), dr.u8());
    kani::assume(c0 < 0x80 && c1 < 0x80);
    let one = |c: u8| -> String {
        let mut s = String::new();
        s.push(c as char);
        s
    };
    let mut nf = blank(NetworkFilterMask::DEFAULT_OPTIONS);
    nf.filter = if anyof { FilterPart::AnyOf(vec![one(c0), one(c1)]) } else { FilterPart::Simple(one(c0)) };
    let back = roundtrip(&nf);
    let part_eq = match (&back.filter, &nf.filter) {
        (FilterPart::Simple(a), FilterPart::Simple(b)) => a.len() == 1 && b.len() == 1 && a.as_bytes()[0] == b.as_bytes()[0],
        (FilterPart::AnyOf(a), FilterPart::AnyOf(b)) => a.len() == 2 && b.len() == 2 && a[0].as_bytes()[0] == b[0].as_bytes()[0] && a[1].as_bytes()[0] == b[1].as_bytes()[0],
        _ => false,
    };
    assert!(part_eq, "P:rule.pattern");
    kani::cover!(part_eq && c0 != c1, "W:rule.pattern_roundtrip");
    core::mem::forget(back);
    core::mem::forget(nf);
}
#[kani::proof]
#[kani::unwind(6)]
fn c08_rule_pattern_simple() {
    pattern_kernel(false);
}
#[kani::proof]
#[kani::unwind(6)]
fn c08_rule_pattern_anyof() {
    pattern_kernel(true);
}

// ---------------------------------------------------------------------------------------------- C08.order
// rmp-serde encodes structs positionally, so the field ORDER of a serialize-side struct and of its
// deserialize-side twin is part of the format. The derived impls announce their field lists to any serde
// back end: a recording Serializer / Deserializer (below) captures both lists, and the kernel asserts that they
// agree position by position (names compared without a leading '_', which the read side uses for ignored fields).
mod order {
    use serde::de::{self, Deserializer, Visitor};
    use serde::ser::{self, Impossible, Serialize, SerializeStruct, Serializer};
    use std::fmt;

    pub const MAXF: usize = 28;
    pub struct Rec {
        pub names: [&'static str; MAXF],
        pub n: usize,
    }
    impl Rec {
        pub fn new() -> Self {
            Rec { names: [""; MAXF], n: 0 }
        }
        fn push(&mut self, s: &'static str) {
            if self.n < MAXF {
                self.names[self.n] = s;
            }
            self.n += 1;
        }
    }
    #[derive(Debug)]
    pub struct Stop;
    impl fmt::Display for Stop {
        fn fmt(&self, _f: &mut fmt::Formatter<'_>) -> fmt::Result {
            Ok(())
        }
    }
    impl std::error::Error for Stop {}
    impl ser::Error for Stop {
        fn custom<T: fmt::Display>(_msg: T) -> Self {
            Stop
        }
    }
    impl de::Error for Stop {
        fn custom<T: fmt::Display>(_msg: T) -> Self {
            Stop
        }
    }

    pub struct RecSer<'r>(pub &'r mut Rec);
    pub struct RecStruct<'r>(&'r mut Rec);
    impl<'r> SerializeStruct for RecStruct<'r> {
        type Ok = ();
        type Error = Stop;
        fn serialize_field<T: ?Sized + Serialize>(&mut self, key: &'static str, _value: &T) -> Result<(), Stop> {
            self.0.push(key);
            Ok(())
        }
        fn end(self) -> Result<(), Stop> {
            Ok(())
        }
    }
    macro_rules! refuse {
        ($($m:ident($($t:ty),*);)*) => { $(fn $m(self $(, _: $t)*) -> Result<(), Stop> { Err(Stop) })* };
    }
    impl<'r> Serializer for RecSer<'r> {
        type Ok = ();
        type Error = Stop;
        type SerializeSeq = Impossible<(), Stop>;
        type SerializeTuple = Impossible<(), Stop>;
        type SerializeTupleStruct = Impossible<(), Stop>;
        type SerializeTupleVariant = Impossible<(), Stop>;
        type SerializeMap = Impossible<(), Stop>;
        type SerializeStruct = RecStruct<'r>;
        type SerializeStructVariant = Impossible<(), Stop>;
        refuse! {
            serialize_bool(bool); serialize_i8(i8); serialize_i16(i16); serialize_i32(i32); serialize_i64(i64);
            serialize_u8(u8); serialize_u16(u16); serialize_u32(u32); serialize_u64(u64); serialize_f32(f32); serialize_f64(f64);
            serialize_char(char); serialize_str(&str); serialize_bytes(&[u8]); serialize_none(); serialize_unit(); serialize_unit_struct(&'static str);
            serialize_unit_variant(&'static str, u32, &'static str);
        }
        fn serialize_some<T: ?Sized + Serialize>(self, _v: &T) -> Result<(), Stop> {
            Err(Stop)
        }
        fn serialize_newtype_struct<T: ?Sized + Serialize>(self, _n: &'static str, _v: &T) -> Result<(), Stop> {
            Err(Stop)
        }
        fn serialize_newtype_variant<T: ?Sized + Serialize>(self, _n: &'static str, _i: u32, _v: &'static str, _x: &T) -> Result<(), Stop> {
            Err(Stop)
        }
        fn serialize_seq(self, _l: Option<usize>) -> Result<Self::SerializeSeq, Stop> {
            Err(Stop)
        }
        fn serialize_tuple(self, _l: usize) -> Result<Self::SerializeTuple, Stop> {
            Err(Stop)
        }
        fn serialize_tuple_struct(self, _n: &'static str, _l: usize) -> Result<Self::SerializeTupleStruct, Stop> {
            Err(Stop)
        }
        fn serialize_tuple_variant(self, _n: &'static str, _i: u32, _v: &'static str, _l: usize) -> Result<Self::SerializeTupleVariant, Stop> {
            Err(Stop)
        }
        fn serialize_map(self, _l: Option<usize>) -> Result<Self::SerializeMap, Stop> {
            Err(Stop)
        }
        fn serialize_struct(self, _n: &'static str, _l: usize) -> Result<RecStruct<'r>, Stop> {
            Ok(RecStruct(self.0))
        }
        fn serialize_struct_variant(self, _n: &'static str, _i: u32, _v: &'static str, _l: usize) -> Result<Self::SerializeStructVariant, Stop> {
            Err(Stop)
        }
    }

    pub struct RecDe<'r>(pub &'r mut Rec);
    impl<'de, 'r> Deserializer<'de> for RecDe<'r> {
        type Error = Stop;
        fn deserialize_any<V: Visitor<'de>>(self, _v: V) -> Result<V::Value, Stop> {
            Err(Stop)
        }
        fn deserialize_struct<V: Visitor<'de>>(self, _name: &'static str, fields: &'static [&'static str], _v: V) -> Result<V::Value, Stop> {
            let mut i = 0;
            while i < fields.len() {
                self.0.push(fields[i]);
                i += 1;
            }
            Err(Stop)
        }
        serde::forward_to_deserialize_any! {
            bool i8 i16 i32 i64 u8 u16 u32 u64 f32 f64 char str string bytes byte_buf option unit unit_struct newtype_struct seq tuple
            tuple_struct map enum identifier ignored_any
        }
    }
    pub fn same_name(a: &str, b: &str) -> bool {
        let (a, b) = (a.as_bytes(), b.as_bytes());
        let a = if a.len() > 0 && a[0] == b'_' { &a[1..] } else { a };
        let b = if b.len() > 0 && b[0] == b'_' { &b[1..] } else { b };
        if a.len() != b.len() {
            return false;
        }
        let mut i = 0;
        while i < a.len() {
            if a[i] != b[i] {
                return false;
            }
            i += 1;
        }
        true
    }
}

/// per-rule wire struct: write side and read side list the same fields in the same order
#[kani::proof]
#[kani::unwind(30)]
fn c08_order_rule() {
    use serde::{Deserialize, Serialize};
    let mut dr = crate::verif_shim::Draw::new();
    let i: usize = dr.usize();
    let nf = blank(NetworkFilterMask::DEFAULT_OPTIONS);
    let ser: NetworkFilterV0SerializeFmt<'_> = (&nf).into();
    let mut w = order::Rec::new();
    let _ = ser.serialize(order::RecSer(&mut w));
    let mut r = order::Rec::new();
    let _ = NetworkFilterV0DeserializeFmt::deserialize(order::RecDe(&mut r));
    assert!(w.n == r.n && w.n >= 1 && w.n <= order::MAXF, "P:order.rule.same_number_of_fields");
    kani::assume(i < w.n && i < order::MAXF);
    assert!(order::same_name(w.names[i], r.names[i]), "P:order.rule.same_field_at_every_position");
    kani::cover!(i == 12, "W:order.rule.last_field");
    core::mem::forget(nf);
}

/// top-level format struct: the write side (SerializeFormat) and the read side (DeserializeFormat) list the same
/// sections in the same order — a swap would load e.g. the exception list as the important list.
#[kani::proof]
#[kani::unwind(30)]
#[kani::stub(std::hash::RandomState::new, crate::verif_shim::stub_random_state_new)]
#[kani::stub(std::time::Instant::now, crate::verif_shim::stub_instant_now)]
fn c08_order_format() {
    use serde::{Deserialize, Serialize};
    let mut dr = crate::verif_shim::Draw::new();
    let i: usize = dr.usize();
    let blocker = Blocker {
        csp: Default::default(),
        exceptions: Default::default(),
        importants: Default::default(),
        redirects: Default::default(),
        removeparam: Default::default(),
        filters_tagged: Default::default(),
        filters: Default::default(),
        generic_hide: Default::default(),
        tags_enabled: Default::default(),
        tagged_filters_all: vec![],
        enable_optimizations: false,
        regex_manager: Default::default(),
    };
    let cfc = CosmeticFilterCache::new();
    let fmt = SerializeFormat::from((&blocker, &cfc));
    let mut w = order::Rec::new();
    let _ = Serialize::serialize(&fmt, order::RecSer(&mut w));
    let mut r = order::Rec::new();
    let _ = <DeserializeFormat as Deserialize>::deserialize(order::RecDe(&mut r));
    assert!(w.n == r.n && w.n >= 1 && w.n <= order::MAXF, "P:order.format.same_number_of_sections");
    kani::assume(i < w.n && i < order::MAXF);
    assert!(order::same_name(w.names[i], r.names[i]), "P:order.format.same_section_at_every_position");
    kani::cover!(i == 1, "W:order.format.second_section");
    core::mem::forget(fmt);
    core::mem::forget(blocker);
    core::mem::forget(cfc);
}
