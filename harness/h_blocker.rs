//! C04.prec / C15.merge / C07.algebra — child module of src/blocker.rs ("container mode", see kernels.py).
//!
//! A Blocker whose SHAPE is concrete (which list holds which rules, their categories, tags and modifier
//! strings) is assembled field by field; what is symbolic is the outcome of the per-rule matcher for every
//! rule (M[rule id], see h_network_filter_list.rs for why) and the query flags. The real
//! check_parameterised / get_csp_directives / tag operations run on it.
use super::*;
use crate::filters::network::{FilterPart, NetworkFilterMask};
use crate::request::{self, RequestType};
use crate::verif_shim::vm::HashMap;
use std::sync::Arc;

use crate::utils::Hash;
static mut M: [bool; 16] = [false; 16];
pub fn stub_matches(f: &NetworkFilter, _request: &request::Request, _rm: &mut RegexManager) -> bool {
    unsafe { M[(f.id & 15) as usize] }
}

fn rule(mask: NetworkFilterMask, tag: Option<&str>, modifier: Option<&str>, id: u64) -> Arc<NetworkFilter> {
    Arc::new(NetworkFilter {
        mask,
        filter: FilterPart::Empty,
        opt_domains: None,
        opt_not_domains: None,
        modifier_option: modifier.map(String::from),
        hostname: None,
        tag: tag.map(String::from),
        raw_line: None,
        id,
        opt_domains_union: None,
        opt_not_domains_union: None,
    })
}
fn list(rules: Vec<Arc<NetworkFilter>>) -> NetworkFilterList {
    let mut map = HashMap::new();
    if !rules.is_empty() {
        map.insert(0u64, rules);
    }
    NetworkFilterList { filter_map: map }
}
fn req(rt: RequestType) -> request::Request {
    request::Request {
        request_type: rt,
        is_http: false,
        is_https: true,
        is_supported: true,
        is_third_party: false,
        url: String::new(),
        hostname: String::new(),
        source_hostname_hashes: None,
        url_lower_cased: String::new(),
        request_tokens: vec![0],
        original_url: String::new(),
    }
}
fn blocker(importants: NetworkFilterList, tagged: NetworkFilterList, filters: NetworkFilterList, exceptions: NetworkFilterList, csp: NetworkFilterList, a_on: bool) -> Blocker {
    let mut tags: HashSet<String> = HashSet::new();
    if a_on {
        tags.insert(String::from("a"));
    }
    Blocker {
        csp,
        exceptions,
        importants,
        redirects: list(vec![]),
        removeparam: list(vec![]),
        filters_tagged: tagged,
        filters,
        generic_hide: list(vec![]),
        tags_enabled: tags,
        tagged_filters_all: vec![],
        enable_optimizations: false,
        regex_manager: Default::default(),
    }
}

macro_rules! blocker_harness {
    ($unw:literal, fn $name:ident() $body:block) => {
        #[kani::proof]
        #[kani::unwind($unw)]
        #[kani::stub(regex::Regex::new, crate::verif_shim::stub_regex_new)]
        #[kani::stub(regex::Regex::is_match, crate::verif_shim::stub_regex_is_match)]
        #[kani::stub(crate::regex_manager::RegexManager::matches, crate::verif_shim::stub_rm_matches)]
        #[kani::stub(std::time::Instant::now, crate::verif_shim::stub_instant_now)]
        #[kani::stub(std::hash::RandomState::new, crate::verif_shim::stub_random_state_new)]
        #[kani::stub(crate::verif_shim::rule_matches, stub_matches)]
        fn $name() $body
    };
}

// ---------------------------------------------------------------------------------------------- C04.prec
/// blocked <=> an important blocking rule matches, or some (active) blocking rule matches and no active
/// exception matches; plus the matched_rule / force_check_exceptions parameters of check_parameterised.
/// Shape `tagged == false`: one important rule, one normal blocking rule, one exception.
/// Shape `tagged == true`: one tagged blocking rule, one untagged blocking rule, one tagged exception (tag 'a').
fn prec_kernel(tagged: bool, a_on: bool) {
    let mut dr = crate::verif_shim::Draw::new();
    let (o1, o2, o3): (bool, bool, bool) = (dr.bool(), dr.bool(), dr.bool());
    let (matched_rule, force): (bool, bool) = (dr.bool(), dr.bool());
    unsafe {
        M[1] = o1;
        M[2] = o2;
        M[3] = o3;
    }
    let d = NetworkFilterMask::DEFAULT_OPTIONS;
    let b = if !tagged {
        blocker(
            list(vec![rule(d | NetworkFilterMask::IS_IMPORTANT, None, None, 1)]),
            list(vec![]),
            list(vec![rule(d, None, None, 2)]),
            list(vec![rule(d | NetworkFilterMask::IS_EXCEPTION, None, None, 3)]),
            list(vec![]),
            a_on,
        )
    } else {
        blocker(
            list(vec![]),
            list(vec![rule(d, Some("a"), None, 1)]),
            list(vec![rule(d, None, None, 2)]),
            list(vec![rule(d | NetworkFilterMask::IS_EXCEPTION, Some("a"), None, 3)]),
            list(vec![]),
            a_on,
        )
    };
    let r = req(RequestType::Script);
    let resources = ResourceStorage::default();
    let res = b.check_parameterised(&r, &resources, matched_rule, force);
    // reference
    let imp = !tagged && o1;
    let blocking = if !tagged { imp || (!matched_rule && o2) } else { !matched_rule && ((o1 && a_on) || o2) };
    let exc_active = if !tagged { o3 } else { o3 && a_on };
    let exc_consulted = if imp { false } else if blocking { true } else { matched_rule || force };
    let exception = exc_consulted && exc_active;
    let want_matched = !exception && (blocking || matched_rule);
    assert!(res.matched == want_matched, "P:prec.blocked_iff_important_or_unexcepted_blocking_rule");
    assert!(res.important == imp, "P:prec.important_flag");
    assert!(res.exception.is_some() == exception, "P:prec.exception_reported_iff_consulted_and_active");
    assert!(res.filter.is_some() == blocking, "P:prec.filter_reported_iff_blocking_rule");
    assert!(res.redirect.is_none() && res.rewritten_url.is_none(), "P:prec.no_redirect_no_rewrite");
    kani::cover!(res.matched && !res.important, "W:prec.blocked_by_normal_rule");
    kani::cover!(!res.matched && res.exception.is_some(), "W:prec.excepted");
    kani::cover!(res.important && o3, "W:prec.important_beats_exception");
    core::mem::forget(res);
    core::mem::forget(b);
    core::mem::forget(r);
    core::mem::forget(resources);
}
blocker_harness!(4, fn c04_prec_plain() { prec_kernel(false, false); });
blocker_harness!(4, fn c04_prec_tag_off() { prec_kernel(true, false); });
blocker_harness!(4, fn c04_prec_tag_on() { prec_kernel(true, true); });




