//! C16.labels / C16.entity / C16.generic — child module of src/filters/cosmetic.rs.
use super::*;

fn sym_ascii<const N: usize>(buf: &[u8; N], len: usize) -> &str {
    kani::assume(len <= N);
    let mut i = 0;
    while i < N {
        kani::assume(buf[i] < 0x80 && buf[i] >= 0x20);
        i += 1;
    }
    unsafe { core::str::from_utf8_unchecked(&buf[..len]) }
}
pub fn pack(b: &[u8]) -> Hash {
    let mut h: u64 = b.len() as u64;
    let mut i = 0;
    while i < b.len() && i < 7 {
        h = (h << 8) | (b[i] as u64);
        i += 1;
    }
    h | (1u64 << 63)
}
static mut REC: [u64; 10] = [0; 10];
static mut RECN: usize = 0;
pub fn stub_fast_hash_rec(input: &str) -> Hash {
    let h = pack(input.as_bytes());
    unsafe {
        if RECN < 10 {
            REC[RECN] = h;
        }
        RECN += 1;
    }
    h
}
fn recorded(t: u64) -> bool {
    let mut k = 0;
    let mut f = false;
    while k < 10 {
        unsafe {
            if k < RECN && REC[k] == t {
                f = true;
            }
        }
        k += 1;
    }
    f
}

/// host h (ASCII, 1..=N bytes, no leading/trailing dot in the domain part), registrable-domain split at any
/// position that is 0 or follows a '.' (the documented contract of the resolver)
fn draw_host<const N: usize>() -> ([u8; N], usize, usize) {
    let mut dr = crate::verif_shim::Draw::new();
    let hb: [u8; N] = dr.bytes::<N>();
    let hl: usize = dr.usize();
    let ds: usize = dr.usize();
    kani::assume(hl >= 1 && hl <= N);
    let mut i = 0;
    while i < N {
        kani::assume(hb[i] < 0x80 && hb[i] >= 0x20);
        i += 1;
    }
    kani::assume(ds < hl);
    kani::assume(ds == 0 || hb[ds - 1] == b'.');
    kani::assume(hb[ds] != b'.' && hb[hl - 1] != b'.');
    (hb, hl, ds)
}

/// hostname keys = { hash(s) : s a label-suffix of the host that contains the whole registrable domain }, nothing else
fn labels_kernel<const N: usize>() {
    let (hb, hl, ds) = draw_host::<N>();
    let h = unsafe { core::str::from_utf8_unchecked(&hb[..hl]) };
    let domain = &h[ds..];
    let hs = get_hostname_hashes_from_labels(h, domain);
    let mut expected = 0;
    let mut p = 0;
    while p < N {
        if p <= ds && (p == 0 || hb[p - 1] == b'.') {
            assert!(recorded(pack(&hb[p..hl])), "P:labels.every_covering_suffix_is_a_key");
            expected += 1;
        }
        p += 1;
    }
    unsafe {
        assert!(RECN == expected, "P:labels.no_other_key");
    }
    assert!(hs.len() == expected, "P:labels.count");
    kani::cover!(expected >= 3, "W:labels.deep_subdomain");
    kani::cover!(expected == 1, "W:labels.bare_domain");
    core::mem::forget(hs);
}
#[kani::proof]
#[kani::unwind(12)]
#[kani::stub(crate::utils::fast_hash, stub_fast_hash_rec)]
fn c16_labels() {
    labels_kernel::<6>();
}
#[kani::proof]
#[kani::unwind(12)]
#[kani::stub(crate::utils::fast_hash, stub_fast_hash_rec)]
fn c16_labels_t() {
    labels_kernel::<7>();
}

/// entity keys = { hash(s) : s a label-suffix of host-minus-public-suffix } + { hash(public suffix) }, nothing else;
/// no keys at all when the registrable domain has no dot.
fn entity_kernel<const N: usize>() {
    let (hb, hl, ds) = draw_host::<N>();
    let h = unsafe { core::str::from_utf8_unchecked(&hb[..hl]) };
    let domain = &h[ds..];
    let es = get_entity_hashes_from_labels(h, domain);
    // first dot of the domain
    let mut fd = usize::MAX;
    let mut i = 0;
    while i < N {
        if fd == usize::MAX && i >= ds && i < hl && hb[i] == b'.' {
            fd = i;
        }
        i += 1;
    }
    if fd == usize::MAX {
        unsafe {
            assert!(RECN == 0, "P:entity.no_keys_without_public_suffix");
        }
        assert!(es.len() == 0, "P:entity.empty");
    } else {
        // host minus ".<public suffix>" = h[..fd]; public suffix = h[fd+1..]
        let mut expected = 0;
        let mut p = 0;
        while p < N {
            if p < fd && (p == 0 || hb[p - 1] == b'.') {
                assert!(recorded(pack(&hb[p..fd])), "P:entity.every_label_suffix_is_a_key");
                expected += 1;
            }
            p += 1;
        }
        assert!(recorded(pack(&hb[fd + 1..hl])), "P:entity.public_suffix_key");
        unsafe {
            assert!(RECN == expected + 1, "P:entity.no_other_key");
        }
        assert!(es.len() == expected + 1, "P:entity.count");
        kani::cover!(expected >= 2, "W:entity.subdomain");
    }
    kani::cover!(fd == usize::MAX, "W:entity.no_dot_in_domain");
    core::mem::forget(es);
}
#[kani::proof]
#[kani::unwind(12)]
#[kani::stub(crate::utils::fast_hash, stub_fast_hash_rec)]
fn c16_entity() {
    entity_kernel::<6>();
}
#[kani::proof]
#[kani::unwind(12)]
#[kani::stub(crate::utils::fast_hash, stub_fast_hash_rec)]
fn c16_entity_t() {
    entity_kernel::<7>();
}

/// a rule additionally acts as a generic rule iff it has only negated locations, no action and is not a script
/// injection; the generic twin has no location constraint and is otherwise the same rule.
#[kani::proof]
#[kani::unwind(4)]
fn c16_generic() {
    let mut dr = crate::verif_shim::Draw::new();
    let (e, h, ne, nh): (bool, bool, bool, bool) = (dr.bool(), dr.bool(), dr.bool(), dr.bool());
    let mbits: u8 = dr.u8();
    let act: bool = dr.bool();
    let f = CosmeticFilter {
        entities: if e { Some(vec![1]) } else { None },
        hostnames: if h { Some(vec![2]) } else { None },
        mask: CosmeticFilterMask::from_bits_retain(mbits),
        not_entities: if ne { Some(vec![3]) } else { None },
        not_hostnames: if nh { Some(vec![4]) } else { None },
        raw_line: None,
        selector: vec![CosmeticFilterOperator::CssSelector(String::from("a"))],
        action: if act { Some(CosmeticFilterAction::Remove) } else { None },
        permission: Default::default(),
    };
    let g = f.hidden_generic_rule();
    let script = f.mask.contains(CosmeticFilterMask::SCRIPT_INJECT);
    let want = !e && !h && (ne || nh) && !act && !script;
    assert!(g.is_some() == want, "P:generic.only_negated_locations");
    assert!(f.has_hostname_constraint() == (e || h || ne || nh), "P:generic.has_hostname_constraint");
    if let Some(g) = &g {
        assert!(!g.has_hostname_constraint(), "P:generic.twin_is_unscoped");
        assert!(g.mask.bits() == mbits && g.action.is_none() && g.selector.len() == 1, "P:generic.twin_keeps_rule");
    }
    kani::cover!(g.is_some(), "W:generic.twin_exists");
    kani::cover!(g.is_none() && (ne || nh), "W:generic.negated_but_no_twin");
    core::mem::forget(g);
    core::mem::forget(f);
}
