// shared helpers, included via include!()
#[allow(dead_code)]
fn sym_ascii<const N: usize>(buf: &[u8; N], len: usize) -> &str {
    kani::assume(len <= N);
    let mut i = 0;
    while i < N {
        if i < len { kani::assume(buf[i] < 0x80 && buf[i] >= 0x20); }
        i += 1;
    }
    unsafe { core::str::from_utf8_unchecked(&buf[..len]) }
}
#[allow(dead_code)]
fn sym_string(nchars: usize) -> String {
    // valid UTF-8 by construction: up to `nchars` arbitrary chars
    let mut s = String::new();
    let n: usize = kani::any();
    kani::assume(n <= nchars);
    let mut i = 0;
    while i < nchars {
        if i < n { let c: char = kani::any(); s.push(c); }
        i += 1;
    }
    s
}
#[allow(unused_macros)]
macro_rules! std_harness {
    ($unw:literal, fn $name:ident() $body:block) => {
        #[kani::proof]
        #[kani::unwind($unw)]
        #[kani::stub(regex::Regex::new, crate::verif_shim::stub_regex_new)]
        #[kani::stub(regex::Regex::is_match, crate::verif_shim::stub_regex_is_match)]
        #[kani::stub(crate::regex_manager::RegexManager::matches, crate::verif_shim::stub_rm_matches)]
        #[kani::stub(std::time::Instant::now, crate::verif_shim::stub_instant_now)]
        #[kani::stub(std::hash::RandomState::new, crate::verif_shim::stub_random_state_new)]
        #[kani::stub(std::arch::x86_64::__cpuid_count, crate::verif_shim::stub_cpuid_count)]
        fn $name() $body
    };
}
#[allow(dead_code)]
fn sym_mixed() -> String {
    // one optional ASCII byte, one optional arbitrary char, one optional ASCII byte
    let mut s = String::new();
    let (a, c, b): (bool, bool, bool) = (kani::any(), kani::any(), kani::any());
    if a { let x: u8 = kani::any(); kani::assume(x < 0x80); s.push(x as char); }
    if c { let ch: char = kani::any(); s.push(ch); }
    if b { let y: u8 = kani::any(); kani::assume(y < 0x80); s.push(y as char); }
    s
}
