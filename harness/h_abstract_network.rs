//! C11.split — child module of src/filters/abstract_network.rs.
use super::*;

/// option parsing is string-heavy and its result never feeds a slice offset: cut to Err
pub fn stub_parse_opts(_raw: &str) -> Result<Vec<NetworkFilterOption>, NetworkFilterError> {
    Err(NetworkFilterError::UnrecognisedOption)
}

/// Input model: ASCII? . arbitrary char? . ASCII? — the smallest shape in which an offset computed from an
/// ASCII delimiter ('@', '|', '$') can land inside a multi-byte character.
fn split_kernel(with_tail: bool) {
    let mut dr = crate::verif_shim::Draw::new();
    let mut s = String::new();
    let (a, c, b): (bool, bool, bool) = (dr.bool(), dr.bool(), dr.bool());
    let x: u8 = dr.u8();
    let ch: char = dr.char();
    let y: u8 = dr.u8();
    kani::assume(x < 0x80 && y < 0x80);
    if !with_tail {
        kani::assume(!b);
    }
    if a {
        s.push(x as char);
    }
    if c {
        s.push(ch);
    }
    if b {
        s.push(y as char);
    }
    let r = AbstractNetworkFilter::parse(&s);
    // totality is the property: Kani's bounds / char-boundary / overflow checks are the oracle.
    if let Ok(f) = &r {
        // the pattern is a sub-slice of the line: never longer than the line
        assert!(f.pattern.pattern.len() <= s.len(), "P:split.pattern_is_subslice");
        kani::cover!(c && (ch as u32) >= 0x80 && f.pattern.pattern.len() >= 2, "W:split.non_ascii_char_in_pattern");
        kani::cover!(f.pattern.right_anchor.is_some(), "W:split.right_anchor");
        kani::cover!(f.pattern.left_anchor.is_some(), "W:split.left_anchor");
    }
    kani::cover!(r.is_err(), "W:split.options_path");
    core::mem::forget(r);
    core::mem::forget(s);
}

#[kani::proof]
#[kani::unwind(7)]
#[kani::stub(crate::filters::abstract_network::parse_filter_options, stub_parse_opts)]
fn c11_split() {
    split_kernel(false);
}
#[kani::proof]
#[kani::unwind(8)]
#[kani::stub(crate::filters::abstract_network::parse_filter_options, stub_parse_opts)]
fn c11_split_t() {
    split_kernel(true);
}
