//! C01.gt.* / C01.flags / C01.dom / C01.scheme / C04.id — child module of src/filters/network.rs.
use super::*;
use crate::filters::network_matchers::check_options;

pub fn pack(b: &[u8]) -> Hash {
    let mut h: u64 = b.len() as u64;
    let mut i = 0;
    while i < b.len() && i < 7 {
        h = (h << 8) | (b[i] as u64);
        i += 1;
    }
    h | (1u64 << 63)
}
pub fn stub_fast_hash(input: &str) -> Hash {
    pack(input.as_bytes())
}
fn alnum(c: u8) -> bool {
    (c >= b'0' && c <= b'9') || (c >= b'a' && c <= b'z') || (c >= b'A' && c <= b'Z') || c == b'%'
}

fn mk(mask: NetworkFilterMask, filter: FilterPart) -> NetworkFilter {
    NetworkFilter {
        mask,
        filter,
        opt_domains: None,
        opt_not_domains: None,
        modifier_option: None,
        hostname: None,
        tag: None,
        raw_line: None,
        id: 1,
        opt_domains_union: None,
        opt_not_domains_union: None,
    }
}

fn mk_req(rt: request::RequestType, http: bool, https: bool, tp: bool, src: Option<Vec<Hash>>) -> request::Request {
    request::Request {
        request_type: rt,
        is_http: http,
        is_https: https,
        is_supported: true,
        is_third_party: tp,
        url: String::new(),
        hostname: String::new(),
        source_hostname_hashes: src,
        url_lower_cased: String::new(),
        request_tokens: vec![],
        original_url: String::new(),
    }
}

// kind bits: regex, host-anchor, complete-regex, hostname-regex, removeparam (VALID_PARAM regex)
const KINDBITS: u32 = (1 << 18) | (1 << 21) | (1 << 24) | (1 << 28) | (1 << 15);

// ------------------------------------------------------------------------------------------ C01.flags
static mut REC: [u64; 6] = [0; 6];
static mut RECN: usize = 0;
pub fn stub_fast_hash_rec(input: &str) -> Hash {
    let h = pack(input.as_bytes());
    unsafe {
        if RECN < 6 {
            REC[RECN] = h;
        }
        RECN += 1;
    }
    h
}

/// which tokens get_tokens() emits as a function of the mask (pattern fixed: three runs `ab/cd/ef`).
/// Descriptive: ties the flags C01.tok passes to the tokenizer to the code.
#[kani::proof]
#[kani::unwind(12)]
#[kani::stub(crate::utils::fast_hash, stub_fast_hash_rec)]
#[kani::stub(regex::Regex::new, crate::verif_shim::stub_regex_new)]
#[kani::stub(regex::Regex::is_match, crate::verif_shim::stub_regex_is_match)]
fn c01_flags() {
    let mut dr = crate::verif_shim::Draw::new();
    let m: u32 = dr.u32() & !KINDBITS;
    let nf = mk(NetworkFilterMask::from_bits_retain(m), FilterPart::Simple(String::from("ab/cd/ef")));
    let g = nf.get_tokens();
    assert!(g.len() == 1, "P:flags.one_group");
    let ra = nf.mask.contains(NetworkFilterMask::IS_RIGHT_ANCHOR);
    let http_only = nf.mask.contains(NetworkFilterMask::FROM_HTTP) && !nf.mask.contains(NetworkFilterMask::FROM_HTTPS);
    let https_only = nf.mask.contains(NetworkFilterMask::FROM_HTTPS) && !nf.mask.contains(NetworkFilterMask::FROM_HTTP);
    let (ab, cd, ef) = (pack(b"ab"), pack(b"cd"), pack(b"ef"));
    unsafe {
        if ra {
            assert!(REC[0] == cd && REC[1] == ef, "P:flags.right_anchor_skips_first_keeps_last");
        } else {
            assert!(REC[0] == ab && REC[1] == cd, "P:flags.unanchored_right_skips_last");
        }
        assert!(RECN == 2 + if http_only || https_only { 1 } else { 0 }, "P:flags.count");
        if http_only {
            assert!(REC[2] == pack(b"http"), "P:flags.http_token");
        }
        if https_only {
            assert!(REC[2] == pack(b"https"), "P:flags.https_token");
        }
    }
    assert!(g[0].len() == unsafe { RECN }, "P:flags.group_len");
    kani::cover!(ra && http_only, "W:flags.ra_http_only");
    kani::cover!(!ra && !http_only && !https_only, "W:flags.plain");
    core::mem::forget(g);
    core::mem::forget(nf);
}

/// hostname tokens: a host-anchored rule offers the tokens of its hostname unless the hostname itself contains a
/// wildcard (IS_HOSTNAME_REGEX); pattern tokens are offered unless the pattern is a complete regex. Every
/// other mask bit — including IS_REGEX — is symbolic (tokenisation never evaluates a regex).
#[kani::proof]
#[kani::unwind(12)]
#[kani::stub(crate::utils::fast_hash, stub_fast_hash_rec)]
#[kani::stub(regex::Regex::new, crate::verif_shim::stub_regex_new)]
#[kani::stub(regex::Regex::is_match, crate::verif_shim::stub_regex_is_match)]
fn c01_flags_host() {
    let mut dr = crate::verif_shim::Draw::new();
    let m: u32 = dr.u32() & !(1 << 15);
    let mut nf = mk(NetworkFilterMask::from_bits_retain(m), FilterPart::Simple(String::from("ab/cd/ef")));
    nf.hostname = Some(String::from("gh.ij"));
    let g = nf.get_tokens();
    assert!(g.len() == 1, "P:flags_host.one_group");
    let complete = nf.mask.contains(NetworkFilterMask::IS_COMPLETE_REGEX);
    let host_wild = nf.mask.contains(NetworkFilterMask::IS_HOSTNAME_REGEX);
    let n_pattern = if complete { 0 } else { 2 };
    let n_host = if host_wild { 0 } else { 2 };
    let http_only = nf.mask.contains(NetworkFilterMask::FROM_HTTP) && !nf.mask.contains(NetworkFilterMask::FROM_HTTPS);
    let https_only = nf.mask.contains(NetworkFilterMask::FROM_HTTPS) && !nf.mask.contains(NetworkFilterMask::FROM_HTTP);
    unsafe {
        assert!(RECN == n_pattern + n_host + if http_only || https_only { 1 } else { 0 }, "P:flags_host.count");
        if !host_wild {
            assert!(REC[n_pattern] == pack(b"gh") && REC[n_pattern + 1] == pack(b"ij"), "P:flags_host.hostname_tokens_offered_unless_hostname_has_wildcard");
        }
    }
    kani::cover!(host_wild && !complete, "W:flags_host.wildcard_hostname");
    kani::cover!(!host_wild && nf.mask.contains(NetworkFilterMask::IS_REGEX), "W:flags_host.regex_pattern_plain_hostname");
    core::mem::forget(g);
    core::mem::forget(nf);
}

// --------------------------------------------------------------------------------------------- C01.gt
static mut MODE_B: bool = false;
static mut TA: [u64; 4] = [0; 4];
static mut NTA: usize = 0;
static mut TB: [u64; 6] = [0; 6];
static mut NTB: usize = 0;
pub fn stub_fast_hash_ab(input: &str) -> Hash {
    let h = pack(input.as_bytes());
    unsafe {
        if MODE_B {
            if NTB < 6 {
                TB[NTB] = h;
            }
            NTB += 1;
        } else {
            if NTA < 4 {
                TA[NTA] = h;
            }
            NTA += 1;
        }
    }
    h
}

/// the same statement as C01.tok, through the real `get_tokens()` (real flag selection) and the real
/// `tokenize_pooled` (what `Request` uses, real Unicode predicate)
fn direct_get_tokens(la: bool, ra: bool) {
    let mut dr = crate::verif_shim::Draw::new();
    let fb: [u8; 4] = dr.bytes::<4>();
    let fl: usize = dr.usize();
    kani::assume(fl >= 1 && fl <= 4);
    let mut i = 0;
    while i < 4 {
        kani::assume(fb[i] < 0x80 && fb[i] >= 0x20 && fb[i] != b'*' && fb[i] != b'^' && !(fb[i] >= b'A' && fb[i] <= b'Z'));
        i += 1;
    }
    let pre: u8 = dr.u8();
    let post: u8 = dr.u8();
    kani::assume(pre < 0x80 && pre >= 0x20 && post < 0x80 && post >= 0x20 && !(pre >= b'A' && pre <= b'Z') && !(post >= b'A' && post <= b'Z'));
    let has_pre: bool = dr.bool();
    let has_post: bool = dr.bool();
    if la {
        kani::assume(!has_pre);
    }
    if ra {
        kani::assume(!has_post);
    }
    let mut ub = [b'/'; 6];
    let off = if has_pre {
        ub[0] = pre;
        1
    } else {
        0
    };
    let mut i = 0;
    while i < 4 {
        if i < fl {
            ub[off + i] = fb[i];
        }
        i += 1;
    }
    let mut n = off + fl;
    if has_post {
        ub[n] = post;
        n += 1;
    }
    let f = unsafe { core::str::from_utf8_unchecked(&fb[..fl]) };
    let u = unsafe { core::str::from_utf8_unchecked(&ub[..n]) };
    let mut mask = NetworkFilterMask::DEFAULT_OPTIONS;
    if la {
        mask |= NetworkFilterMask::IS_LEFT_ANCHOR;
    }
    if ra {
        mask |= NetworkFilterMask::IS_RIGHT_ANCHOR;
    }
    let nf = mk(mask, FilterPart::Simple(String::from(f)));
    unsafe {
        MODE_B = false;
    }
    let g = nf.get_tokens();
    unsafe {
        MODE_B = true;
    }
    let mut vb: Vec<Hash> = vec![];
    utils::tokenize_pooled(u, &mut vb);
    let mut e0 = 0;
    while e0 < fl && alnum(fb[e0]) {
        e0 += 1;
    }
    let h0 = pack(&fb[..e0]);
    let r1 = has_pre && alnum(pre) && e0 >= 1;
    // ... and only for the rule token that touches the star: the first run (pre == '*') or the last run (post == '*')
    let mut sl = fl;
    while sl > 0 && alnum(fb[sl - 1]) {
        sl -= 1;
    }
    let hl_last = pack(&fb[sl..fl]);
    let star_pre = has_pre && pre == b'*' && e0 >= 1;
    let star_post = has_post && post == b'*' && sl < fl;
    unsafe {
        assert!(NTA <= 4 && NTB <= 6, "P:gt.buffer_bound");
        let mut k = 0;
        while k < 4 {
            if k < NTA {
                let t = TA[k];
                let mut found = false;
                let mut j = 0;
                while j < 6 {
                    if j < NTB && TB[j] == t {
                        found = true;
                    }
                    j += 1;
                }
                if (star_pre && t == h0) || (star_post && t == hl_last) {
                    assert!(found, "K:url-token-next-to-literal-star:gt.subset");
                } else if r1 && t == h0 {
                    assert!(found, "K:first-token-left-unanchored:gt.subset");
                } else {
                    assert!(found, "P:gt.subset");
                }
            }
            k += 1;
        }
        kani::cover!(NTA >= 1, "W:gt.rule_has_token");
    }
    core::mem::forget(g);
    core::mem::forget(vb);
    core::mem::forget(nf);
}
macro_rules! gt_harness {
    ($name:ident, $la:expr, $ra:expr) => {
        #[kani::proof]
        #[kani::unwind(9)]
        #[kani::stub(crate::utils::fast_hash, stub_fast_hash_ab)]
        #[kani::stub(regex::Regex::new, crate::verif_shim::stub_regex_new)]
        #[kani::stub(regex::Regex::is_match, crate::verif_shim::stub_regex_is_match)]
        fn $name() {
            direct_get_tokens($la, $ra);
        }
    };
}
gt_harness!(c01_gt_left, true, false);
gt_harness!(c01_gt_right, false, true);
gt_harness!(c01_gt_plain, false, false);
gt_harness!(c01_gt_both, true, true);

// -------------------------------------------------------------------------------------------- C01.dom
/// options pass AND the rule is bucketed under its single included domain => that domain hash is among
/// the hashes the request probes (its source-hostname hashes).
#[kani::proof]
#[kani::unwind(8)]
#[kani::stub(crate::utils::fast_hash, stub_fast_hash)]
#[kani::stub(regex::Regex::new, crate::verif_shim::stub_regex_new)]
#[kani::stub(regex::Regex::is_match, crate::verif_shim::stub_regex_is_match)]
fn c01_dom() {
    let mut dr = crate::verif_shim::Draw::new();
    let m: u32 = dr.u32() & !KINDBITS;
    let d: u64 = dr.u64();
    let s: [u64; 2] = dr.u64s::<2>();
    let ns: usize = dr.usize();
    kani::assume(ns <= 2);
    let has_src: bool = dr.bool();
    let (http, https, tp): (bool, bool, bool) = (dr.bool(), dr.bool(), dr.bool());
    kani::assume(!(http && https));
    let mut nf = mk(NetworkFilterMask::from_bits_retain(m), FilterPart::Empty);
    nf.opt_domains = Some(vec![d]);
    nf.opt_domains_union = Some(d);
    let srcv: Vec<u64> = if ns == 0 { vec![] } else if ns == 1 { vec![s[0]] } else { vec![s[0], s[1]] };
    let req = mk_req(request::RequestType::Script, http, https, tp, if has_src { Some(srcv) } else { None });
    let ok = check_options(nf.mask, nf.opt_domains.as_deref(), nf.opt_domains_union, None, None, &req);
    let g = nf.get_tokens();
    // with an empty pattern and one included domain the rule is filed under exactly that domain hash
    assert!(g.len() == 1 && g[0].len() >= 1 && g[0][0] == d, "P:dom.filed_under_domain");
    if ok {
        let probed = has_src && ((ns > 0 && s[0] == d) || (ns > 1 && s[1] == d));
        assert!(probed, "P:dom.domain_token_is_probed");
    }
    kani::cover!(ok, "W:dom.options_pass");
    core::mem::forget(g);
    core::mem::forget(nf);
    core::mem::forget(req);
}

// ----------------------------------------------------------------------------------------- C01.scheme
/// options pass AND get_tokens adds a scheme token => the request's URL has that scheme token.
/// Request flags come from the real `Request::from_detailed_parameters` for a symbolic scheme.
#[kani::proof]
#[kani::unwind(8)]
#[kani::stub(crate::utils::fast_hash, stub_fast_hash)]
fn c01_scheme() {
    let mut dr = crate::verif_shim::Draw::new();
    let m: u32 = dr.u32() & !KINDBITS;
    let mask = NetworkFilterMask::from_bits_retain(m);
    // request scheme class: 0 http, 1 https, 2 ws/wss (neither flag; the constructor forces the websocket type)
    let sc: u8 = dr.u8();
    kani::assume(sc < 3);
    let tp: bool = dr.bool();
    let rt = if sc == 2 { request::RequestType::Websocket } else { request::RequestType::Script };
    let req = mk_req(rt, sc == 0, sc == 1, tp, None);
    let ok = check_options(mask, None, None, None, None, &req);
    let http_only = mask.contains(NetworkFilterMask::FROM_HTTP) && !mask.contains(NetworkFilterMask::FROM_HTTPS);
    let https_only = mask.contains(NetworkFilterMask::FROM_HTTPS) && !mask.contains(NetworkFilterMask::FROM_HTTP);
    if ok && http_only {
        if sc == 2 {
            assert!(false, "K:scheme-token-vs-websocket-request:scheme.http_only");
        } else {
            assert!(sc == 0, "P:scheme.http_only_rule_needs_http_request");
        }
    }
    if ok && https_only {
        if sc == 2 {
            assert!(false, "K:scheme-token-vs-websocket-request:scheme.https_only");
        } else {
            assert!(sc == 1, "P:scheme.https_only_rule_needs_https_request");
        }
    }
    kani::cover!(ok && http_only && sc == 0, "W:scheme.http_only_matches_http");
    kani::cover!(ok && https_only && sc == 1, "W:scheme.https_only_matches_https");
    core::mem::forget(req);
}

// ---------------------------------------------------------------------------------------------- C04.id
fn sym_ascii<const N: usize>(buf: &[u8; N], len: usize) -> &str {
    kani::assume(len <= N);
    let mut i = 0;
    while i < N {
        kani::assume(buf[i] < 0x80 && buf[i] >= 0x20);
        i += 1;
    }
    unsafe { core::str::from_utf8_unchecked(&buf[..len]) }
}
fn bytes_eq(a: &str, b: &str) -> bool {
    let (a, b) = (a.as_bytes(), b.as_bytes());
    if a.len() != b.len() {
        return false;
    }
    let mut i = 0;
    while i < a.len() {
        if a[i] != b[i] {
            return false;
        }
        i += 1;
    }
    true
}

fn one_byte_diff(a: &str, b: &str) -> bool {
    let (a, b) = (a.as_bytes(), b.as_bytes());
    if a.len() != b.len() {
        return false;
    }
    let mut n = 0;
    let mut i = 0;
    while i < a.len() {
        if a[i] != b[i] {
            n += 1;
        }
        i += 1;
    }
    n == 1
}

/// badfilter identity: z$badfilter cancels y iff get_id_without_badfilter(z) == get_id(y).
///  (<=) same pattern + same options => ids equal (cancellation happens)            [P]
///  (=>) ids equal and masks equal modulo the badfilter bit => all fields equal     [K: the id is a
///       djb2-style stream over modifier ++ domains ++ filter ++ hostname without delimiters]
fn id_kernel<const N: usize>(with_mask_check: bool) {
    let mut dr = crate::verif_shim::Draw::new();
    let my: u32 = dr.u32();
    let a: [u8; N] = dr.bytes::<N>();
    let al: usize = dr.usize();
    let b: [u8; N] = dr.bytes::<N>();
    let bl: usize = dr.usize();
    let c: [u8; N] = dr.bytes::<N>();
    let cl: usize = dr.usize();
    let d: [u8; N] = dr.bytes::<N>();
    let dl: usize = dr.usize();
    let (fy, hy, fz, hz) = (sym_ascii(&a, al), sym_ascii(&b, bl), sym_ascii(&c, cl), sym_ascii(&d, dl));
    let has_hy: bool = dr.bool();
    let has_hz: bool = dr.bool();
    let dy: u64 = dr.u64();
    let dz: u64 = dr.u64();
    let has_dy: bool = dr.bool();
    let has_dz: bool = dr.bool();
    // excluded-domain lists (0..=1 hash)
    let ny: u64 = dr.u64();
    let nz: u64 = dr.u64();
    let has_ny: bool = dr.bool();
    let has_nz: bool = dr.bool();
    let bad = NetworkFilterMask::BAD_FILTER;
    let mask_y = NetworkFilterMask::from_bits_retain(my) & !bad;
    let mask_z = mask_y | bad;
    let mut y = mk(mask_y, FilterPart::Simple(String::from(fy)));
    let mut z = mk(mask_z, FilterPart::Simple(String::from(fz)));
    if has_hy {
        y.hostname = Some(String::from(hy));
    }
    if has_hz {
        z.hostname = Some(String::from(hz));
    }
    if has_dy {
        y.opt_domains = Some(vec![dy]);
    }
    if has_dz {
        z.opt_domains = Some(vec![dz]);
    }
    if has_ny {
        y.opt_not_domains = Some(vec![ny]);
    }
    if has_nz {
        z.opt_not_domains = Some(vec![nz]);
    }
    let same = bytes_eq(fy, fz) && has_hy == has_hz && (!has_hy || bytes_eq(hy, hz)) && has_dy == has_dz && (!has_dy || dy == dz)
        && has_ny == has_nz && (!has_ny || ny == nz);
    let ids_eq = z.get_id_without_badfilter() == y.get_id();
    if same {
        assert!(ids_eq, "P:id.same_rule_is_cancelled");
    }
    if ids_eq {
        // Every component is fed into the id: two rules that differ in exactly one component, by one byte of a
        // string of the same length or by the value of a domain hash that both carry, have different ids (the
        // stream h -> h*33 ^ x is injective in a single x). Any other collision is the recorded weakness of the id
        // (no delimiters, djb2-style hash).
        let f_same = bytes_eq(fy, fz);
        let h_same = has_hy == has_hz && (!has_hy || bytes_eq(hy, hz));
        let d_same = has_dy == has_dz && (!has_dy || dy == dz);
        let n_same = has_ny == has_nz && (!has_ny || ny == nz);
        let f_one = one_byte_diff(fy, fz);
        let h_one = has_hy && has_hz && one_byte_diff(hy, hz);
        let d_one = has_dy && has_dz && dy != dz;
        let n_one = has_ny && has_nz && ny != nz;
        let single = (f_one && h_same && d_same && n_same)
            || (f_same && h_one && d_same && n_same)
            || (f_same && h_same && d_one && n_same)
            || (f_same && h_same && d_same && n_one);
        if single {
            assert!(same, "P:id.every_component_is_part_of_the_id");
        } else {
            assert!(same, "K:badfilter-id-collision:id.equal_ids_imply_same_rule");
        }
    }
    if with_mask_check {
        // the id ignores nothing that matching depends on: the mask is part of it
        let my2: u32 = dr.u32();
        let mut y2 = mk(NetworkFilterMask::from_bits_retain(my2) & !bad, FilterPart::Simple(String::from(fy)));
        if has_hy {
            y2.hostname = Some(String::from(hy));
        }
        if y2.mask != y.mask && !has_dy && !has_ny {
            assert!(y2.get_id() != y.get_id(), "P:id.mask_is_part_of_id");
        }
        core::mem::forget(y2);
    }
    kani::cover!(same && ids_eq, "W:id.cancelled");
    kani::cover!(!same && !ids_eq, "W:id.distinct");
    core::mem::forget(y);
    core::mem::forget(z);
}
#[kani::proof]
#[kani::unwind(6)]
fn c04_id() {
    id_kernel::<2>(false);
}
#[kani::proof]
#[kani::unwind(7)]
fn c04_id3() {
    id_kernel::<3>(false);
}
#[kani::proof]
#[kani::unwind(6)]
fn c04_id_mask() {
    id_kernel::<1>(true);
}
