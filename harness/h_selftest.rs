//! vk selftest — child module of src/resources/mod.rs. A deliberately false harness and a deliberately
//! vacuous one: the driver must report the first as a replayed violation and the second as inconclusive.
use super::*;

#[kani::proof]
fn self_false() {
    let mut dr = crate::verif_shim::Draw::new();
    let r: u8 = dr.u8();
    // false claim: every mask is injectable by the empty mask
    assert!(PermissionMask::from_bits(r).is_injectable_by(PermissionMask::from_bits(0)), "P:selftest.false_claim");
    kani::cover!(r == 0, "W:selftest.reachable");
}

#[kani::proof]
fn self_vacuous() {
    let mut dr = crate::verif_shim::Draw::new();
    let r: u8 = dr.u8();
    kani::assume(r > 200 && r < 100);
    assert!(PermissionMask::from_bits(r).is_injectable_by(PermissionMask::from_bits(0)), "P:selftest.vacuous_claim");
    kani::cover!(true, "W:selftest.unreachable_witness");
}
