//! C01.scan / C07.gate — child module of src/network_filter_list.rs.
//!
//! The bucket scan itself: a list whose SHAPE is concrete (which buckets exist, how many rules each holds,
//! which rules carry which tag) and whose rule masks and request flags are symbolic. std HashMap/HashSet are
//! replaced by the Vec-backed reference containers of verif_shim::vm in this file and in blocker.rs (textual
//! substitution in the scratch copy; iteration order differs from hashbrown's, which no claim depends on).
use super::*;
use crate::filters::network::{FilterPart, NetworkFilterMask};
use crate::request;

// regex kinds, host anchor, complete regex, hostname regex: syntactically off (their arms are regex / str::contains)
const KIND: u32 = (1 << 18) | (1 << 21) | (1 << 24) | (1 << 28);

fn mk(mask: u32, tag: Option<&str>, id: u64) -> NetworkFilter {
    NetworkFilter {
        mask: NetworkFilterMask::from_bits_retain(mask & !KIND),
        filter: FilterPart::Empty,
        opt_domains: None,
        opt_not_domains: None,
        modifier_option: None,
        hostname: None,
        tag: tag.map(String::from),
        raw_line: None,
        id,
        opt_domains_union: None,
        opt_not_domains_union: None,
    }
}
fn mk_req(dr: &mut crate::verif_shim::Draw, tokens: Vec<Hash>) -> request::Request {
    let rt = match dr.u8() % 3 {
        0 => request::RequestType::Script,
        1 => request::RequestType::Document,
        _ => request::RequestType::Image,
    };
    let http = dr.bool();
    let https = dr.bool();
    kani::assume(!(http && https));
    request::Request {
        request_type: rt,
        is_http: http,
        is_https: https,
        is_supported: true,
        is_third_party: dr.bool(),
        url: String::new(),
        hostname: String::new(),
        source_hostname_hashes: None,
        url_lower_cased: String::new(),
        request_tokens: tokens,
        original_url: String::new(),
    }
}
/// The per-rule matcher is abstracted for the scan kernels: its outcome for rule id i is the symbolic boolean
/// M[i] the harness draws. The scan / gating logic is then decided for EVERY combination of per-rule outcomes
/// (the real matcher is decided separately under C02/C03). Reading rule fields through Arc pointers makes CBMC
/// explore every matcher arm otherwise (measured: no result in 60 min / 17 GB for three rules).
static mut M: [bool; 8] = [false; 8];
pub fn stub_matches(f: &NetworkFilter, _request: &request::Request, _rm: &mut RegexManager) -> bool {
    unsafe { M[(f.id & 7) as usize] }
}
fn active(f: &NetworkFilter, a_on: bool) -> bool {
    match &f.tag {
        None => true,
        Some(t) => a_on && t.len() == 1 && t.as_bytes()[0] == b'a',
    }
}

/// one bucket (token 0) holding two rules with the given tags, in this order; tag "a" enabled or not
fn scan2_kernel(t1: Option<&str>, t2: Option<&str>, a_on: bool, all: bool) {
    let mut dr = crate::verif_shim::Draw::new();
    let (o1, o2): (bool, bool) = (dr.bool(), dr.bool());
    unsafe {
        M[1] = o1;
        M[2] = o2;
    }
    let req = mk_req(&mut dr, vec![0]);
    let m = NetworkFilterMask::DEFAULT_OPTIONS.bits();
    let (f1, f2) = (mk(m, t1, 1), mk(m, t2, 2));
    let mut rm = RegexManager::default();
    let w1 = o1 && active(&f1, a_on);
    let w2 = o2 && active(&f2, a_on);
    let mut map = HashMap::new();
    map.insert(0u64, vec![Arc::new(f1), Arc::new(f2)]);
    let list = NetworkFilterList { filter_map: map };
    let mut tags: HashSet<String> = HashSet::new();
    if a_on {
        tags.insert(String::from("a"));
    }
    if !all {
        let got = list.check(&req, &tags, &mut rm);
        assert!(got.is_some() == (w1 || w2), "P:scan.check_finds_a_rule_iff_some_active_rule_matches");
        if let Some(g) = got {
            assert!((g.id == 1 && w1) || (g.id == 2 && w2), "P:scan.returned_rule_matches_and_is_active");
        }
        kani::cover!(w2 && !w1, "W:scan.only_last_rule_matches");
        kani::cover!(!w1 && !w2, "W:scan.nothing_matches");
    } else {
        let v = list.check_all(&req, &tags, &mut rm);
        let n = (w1 as usize) + (w2 as usize);
        assert!(v.len() == n, "P:scan.check_all_returns_every_active_matching_rule");
        kani::cover!(n == 2, "W:scan.both_match");
        core::mem::forget(v);
    }
    core::mem::forget(list);
    core::mem::forget(tags);
    core::mem::forget(req);
    core::mem::forget(rm);
}
macro_rules! scan_harness {
    ($name:ident, $t1:expr, $t2:expr, $on:expr, $all:expr) => {
        #[kani::proof]
        #[kani::unwind(6)]
        #[kani::stub(regex::Regex::new, crate::verif_shim::stub_regex_new)]
        #[kani::stub(regex::Regex::is_match, crate::verif_shim::stub_regex_is_match)]
        #[kani::stub(crate::regex_manager::RegexManager::matches, crate::verif_shim::stub_rm_matches)]
        #[kani::stub(std::time::Instant::now, crate::verif_shim::stub_instant_now)]
        #[kani::stub(crate::verif_shim::rule_matches, stub_matches)]
        fn $name() {
            scan2_kernel($t1, $t2, $on, $all);
        }
    };
}
scan_harness!(c01_scan_tagged_first_off, Some("a"), None, false, false);
scan_harness!(c01_scan_tagged_first_on, Some("a"), None, true, false);
scan_harness!(c01_scan_tagged_last_off, None, Some("a"), false, false);
scan_harness!(c01_scan_untagged, None, None, false, false);
scan_harness!(c01_scan_other_tag, Some("b"), Some("a"), true, false);
scan_harness!(c01_scanall_tagged_first_off, Some("a"), None, false, true);
scan_harness!(c01_scanall_tagged_first_on, Some("a"), None, true, true);

