//! Single-threaded stand-in for once_cell::sync::Lazy (Kani 0.68 ICEs on once_cell's parking code).
use core::cell::{Cell, UnsafeCell};
pub struct Lazy<T, F = fn() -> T> {
    cell: UnsafeCell<Option<T>>,
    init: Cell<Option<F>>,
}
unsafe impl<T, F> Sync for Lazy<T, F> {}
impl<T, F> Lazy<T, F> {
    pub const fn new(f: F) -> Self {
        Lazy { cell: UnsafeCell::new(None), init: Cell::new(Some(f)) }
    }
}
impl<T, F: FnOnce() -> T> core::ops::Deref for Lazy<T, F> {
    type Target = T;
    fn deref(&self) -> &T {
        unsafe {
            if (*self.cell.get()).is_none() {
                let f = self.init.take().unwrap();
                *self.cell.get() = Some(f());
            }
            (*self.cell.get()).as_ref().unwrap()
        }
    }
}

// Path cuts for the regex crate: any path that evaluates a regex is dropped (assume(false)).
#[cfg(kani)]
pub fn stub_regex_new(_re: &str) -> Result<regex::Regex, regex::Error> {
    kani::assume(false);
    loop {}
}
#[cfg(kani)]
pub fn stub_regex_is_match(_re: &regex::Regex, _h: &str) -> bool {
    kani::assume(false);
    false
}
#[cfg(kani)]
pub fn stub_rm_matches<'a, FiltersIter>(
    _s: &mut crate::regex_manager::RegexManager,
    _mask: crate::filters::network::NetworkFilterMask,
    _filters: FiltersIter,
    _key: u64,
    _pattern: &str,
) -> bool
where
    FiltersIter: Iterator<Item = &'a str> + ExactSizeIterator,
{
    kani::assume(false);
    false
}
#[cfg(kani)]
pub fn stub_instant_now() -> std::time::Instant {
    // frozen clock: layout-agnostic (all-zero Timespec is a valid Instant)
    unsafe { core::mem::zeroed() }
}
#[cfg(kani)]
pub fn stub_memchr(n: u8, h: &[u8]) -> Option<usize> {
    let mut i = 0;
    while i < h.len() { if h[i] == n { return Some(i); } i += 1; }
    None
}
#[cfg(kani)]
pub fn stub_memrchr(n: u8, h: &[u8]) -> Option<usize> {
    let mut i = h.len();
    while i > 0 { i -= 1; if h[i] == n { return Some(i); } }
    None
}
#[cfg(kani)]
pub fn stub_cpuid_count(_leaf: u32, _sub: u32) -> std::arch::x86_64::CpuidResult {
    std::arch::x86_64::CpuidResult { eax: 0, ebx: 0, ecx: 0, edx: 0 }
}
#[cfg(kani)]
pub fn stub_random_state_new() -> std::hash::RandomState {
    // one fixed SipHash seed (all-zero bit pattern is layout-agnostic)
    unsafe { core::mem::zeroed() }
}

/// naive reference stand-ins for the memchr crate entry points used by adblock's own sources
pub mod mc {
    pub fn memchr(n: u8, h: &[u8]) -> Option<usize> {
        let mut i = 0;
        while i < h.len() { if h[i] == n { return Some(i); } i += 1; }
        None
    }
    pub fn memrchr(n: u8, h: &[u8]) -> Option<usize> {
        let mut i = h.len();
        while i > 0 { i -= 1; if h[i] == n { return Some(i); } }
        None
    }
    pub fn memchr2(n1: u8, n2: u8, h: &[u8]) -> Option<usize> {
        let mut i = 0;
        while i < h.len() { if h[i] == n1 || h[i] == n2 { return Some(i); } i += 1; }
        None
    }
    pub fn memchr3(n1: u8, n2: u8, n3: u8, h: &[u8]) -> Option<usize> {
        let mut i = 0;
        while i < h.len() { if h[i] == n1 || h[i] == n2 || h[i] == n3 { return Some(i); } i += 1; }
        None
    }
    pub mod memmem {
        pub fn find(h: &[u8], n: &[u8]) -> Option<usize> {
            if n.len() > h.len() { return None; }
            let mut p = 0;
            while p + n.len() <= h.len() {
                let mut j = 0; let mut eq = true;
                while j < n.len() { if h[p + j] != n[j] { eq = false; break; } j += 1; }
                if eq { return Some(p); }
                p += 1;
            }
            None
        }
        pub fn rfind(h: &[u8], n: &[u8]) -> Option<usize> {
            if n.len() > h.len() { return None; }
            let mut p = h.len() - n.len() + 1;
            while p > 0 {
                p -= 1;
                let mut j = 0; let mut eq = true;
                while j < n.len() { if h[p + j] != n[j] { eq = false; break; } j += 1; }
                if eq { return Some(p); }
            }
            None
        }
        /// like the memchr crate: successive NON-overlapping occurrences
        pub struct FindIter<'h, 'n> { h: &'h [u8], n: &'n [u8], pos: usize }
        pub fn find_iter<'h, 'n>(h: &'h [u8], n: &'n [u8]) -> FindIter<'h, 'n> { FindIter { h, n, pos: 0 } }
        impl<'h, 'n> Iterator for FindIter<'h, 'n> {
            type Item = usize;
            fn next(&mut self) -> Option<usize> {
                if self.pos > self.h.len() { return None; }
                match find(&self.h[self.pos..], self.n) {
                    None => None,
                    Some(i) => {
                        let at = self.pos + i;
                        self.pos = at + if self.n.len() == 0 { 1 } else { self.n.len() };
                        Some(at)
                    }
                }
            }
        }
    }
}

/// Vec-backed reference map with the subset of the std HashMap API that network_filter_list.rs uses.
pub mod vm {
    use core::marker::PhantomData;
    pub struct HashMap<K, V, S = std::hash::RandomState>(pub Vec<(K, V)>, PhantomData<S>);
    impl<K, V, S> Default for HashMap<K, V, S> { fn default() -> Self { HashMap(Vec::new(), PhantomData) } }
    pub struct Entry<'a, K, V, S> { map: &'a mut HashMap<K, V, S>, key: K }
    impl<K: PartialEq, V, S> HashMap<K, V, S> {
        pub fn new() -> Self { Self::default() }
        pub fn with_capacity(_n: usize) -> Self { Self::default() }
        pub fn len(&self) -> usize { self.0.len() }
        pub fn is_empty(&self) -> bool { self.0.is_empty() }
        pub fn shrink_to_fit(&mut self) {}
        fn pos(&self, k: &K) -> Option<usize> {
            let mut i = 0;
            while i < self.0.len() { if self.0[i].0 == *k { return Some(i); } i += 1; }
            None
        }
        pub fn get(&self, k: &K) -> Option<&V> { match self.pos(k) { Some(i) => Some(&self.0[i].1), None => None } }
        pub fn get_mut(&mut self, k: &K) -> Option<&mut V> { match self.pos(k) { Some(i) => Some(&mut self.0[i].1), None => None } }
        pub fn insert(&mut self, k: K, v: V) -> Option<V> {
            match self.pos(&k) {
                Some(i) => Some(core::mem::replace(&mut self.0[i].1, v)),
                None => { self.0.push((k, v)); None }
            }
        }
        pub fn entry(&mut self, key: K) -> Entry<'_, K, V, S> { Entry { map: self, key } }
        pub fn iter(&self) -> impl Iterator<Item = (&K, &V)> { self.0.iter().map(|(k, v)| (k, v)) }
        pub fn drain(&mut self) -> std::vec::Drain<'_, (K, V)> { self.0.drain(..) }
    }
    impl<'a, K: PartialEq, V, S> Entry<'a, K, V, S> {
        pub fn or_insert_with<F: FnOnce() -> V>(self, f: F) -> &'a mut V {
            let i = match self.map.pos(&self.key) {
                Some(i) => i,
                None => { self.map.0.push((self.key, f())); self.map.0.len() - 1 }
            };
            &mut self.map.0[i].1
        }
        pub fn or_insert(self, v: V) -> &'a mut V { self.or_insert_with(|| v) }
    }
    impl<K: PartialEq, V, S> FromIterator<(K, V)> for HashMap<K, V, S> {
        fn from_iter<I: IntoIterator<Item = (K, V)>>(it: I) -> Self {
            let mut m = Self::default();
            for (k, v) in it { m.insert(k, v); }
            m
        }
    }
    impl<K, V, S> IntoIterator for HashMap<K, V, S> {
        type Item = (K, V);
        type IntoIter = std::vec::IntoIter<(K, V)>;
        fn into_iter(self) -> Self::IntoIter { self.0.into_iter() }
    }
    /// Vec-backed reference set with the subset of the std HashSet API that blocker.rs / network_filter_list.rs use.
    pub struct HashSet<K, S = std::hash::RandomState>(pub Vec<K>, PhantomData<S>);
    impl<K, S> Default for HashSet<K, S> { fn default() -> Self { HashSet(Vec::new(), PhantomData) } }
    impl<K: Clone, S> Clone for HashSet<K, S> { fn clone(&self) -> Self { HashSet(self.0.clone(), PhantomData) } }
    impl<K: PartialEq, S> HashSet<K, S> {
        pub fn new() -> Self { Self::default() }
        pub fn with_capacity(_n: usize) -> Self { Self::default() }
        pub fn len(&self) -> usize { self.0.len() }
        pub fn is_empty(&self) -> bool { self.0.is_empty() }
        pub fn contains(&self, k: &K) -> bool {
            let mut i = 0;
            while i < self.0.len() { if self.0[i] == *k { return true; } i += 1; }
            false
        }
        pub fn insert(&mut self, k: K) -> bool {
            if self.contains(&k) { false } else { self.0.push(k); true }
        }
        pub fn remove(&mut self, k: &K) -> bool {
            let mut i = 0;
            while i < self.0.len() { if self.0[i] == *k { self.0.remove(i); return true; } i += 1; }
            false
        }
        pub fn iter(&self) -> std::slice::Iter<'_, K> { self.0.iter() }
        pub fn difference<'a>(&'a self, other: &'a HashSet<K, S>) -> impl Iterator<Item = &'a K> + 'a {
            self.0.iter().filter(move |k| !other.contains(k))
        }
        pub fn union<'a>(&'a self, other: &'a HashSet<K, S>) -> impl Iterator<Item = &'a K> + 'a {
            self.0.iter().chain(other.0.iter().filter(move |k| !self.contains(k)))
        }
    }
    impl<K: PartialEq, S> FromIterator<K> for HashSet<K, S> {
        fn from_iter<I: IntoIterator<Item = K>>(it: I) -> Self {
            let mut m = Self::default();
            for k in it { m.insert(k); }
            m
        }
    }
    impl<K, S> IntoIterator for HashSet<K, S> {
        type Item = K;
        type IntoIter = std::vec::IntoIter<K>;
        fn into_iter(self) -> Self::IntoIter { self.0.into_iter() }
    }
    impl<'a, K, S> IntoIterator for &'a HashSet<K, S> {
        type Item = &'a K;
        type IntoIter = std::slice::Iter<'a, K>;
        fn into_iter(self) -> Self::IntoIter { self.0.iter() }
    }
    impl<K: serde::Serialize, V: serde::Serialize, S> serde::Serialize for HashMap<K, V, S> {
        fn serialize<Se: serde::Serializer>(&self, s: Se) -> Result<Se::Ok, Se::Error> {
            s.collect_map(self.0.iter().map(|(k, v)| (k, v)))
        }
    }
    impl<'de, K: serde::Deserialize<'de>, V: serde::Deserialize<'de>, S> serde::Deserialize<'de> for HashMap<K, V, S> {
        fn deserialize<D: serde::Deserializer<'de>>(d: D) -> Result<Self, D::Error> {
            let v = Vec::<(K, V)>::deserialize(d)?;
            Ok(HashMap(v, PhantomData))
        }
    }
}

/// Arrays are drawn element by element as scalar `kani::any()` calls: with `--slice-formula` the trace steps
/// of array-typed `any()` are sliced away and the concrete-playback vectors come out incomplete.
#[cfg(kani)]
pub fn any_bytes<const N: usize>() -> [u8; N] {
    let mut a = [0u8; N];
    let mut i = 0;
    while i < N {
        a[i] = kani::any::<u8>();
        i += 1;
    }
    a
}
#[cfg(kani)]
pub fn any_u64s<const N: usize>() -> [u64; N] {
    let mut a = [0u64; N];
    let mut i = 0;
    while i < N {
        a[i] = kani::any::<u64>();
        i += 1;
    }
    a
}

/// Tagged symbolic inputs. Every input is drawn as a wider integer whose high bits are assumed equal to a
/// running tag, so that each concrete-playback vector identifies the input it belongs to. Needed because the
/// checks run with `--slice-formula` (without it concrete playback does not fit in memory), and the slicer
/// removes the trace steps of inputs a failing check does not depend on: positions alone cannot be trusted.
#[cfg(kani)]
pub struct Draw {
    next: u64,
}
#[cfg(kani)]
impl Draw {
    pub fn new() -> Self {
        Draw { next: 1 }
    }
    fn tag(&mut self) -> u64 {
        let t = self.next;
        self.next += 1;
        t
    }
    pub fn u8(&mut self) -> u8 {
        let t = self.tag();
        let raw: u32 = kani::any();
        kani::assume((raw >> 8) as u64 == t);
        raw as u8
    }
    pub fn bool(&mut self) -> bool {
        let t = self.tag();
        let raw: u32 = kani::any();
        kani::assume((raw >> 8) as u64 == t && (raw & 0xfe) == 0);
        raw & 1 == 1
    }
    pub fn u32(&mut self) -> u32 {
        let t = self.tag();
        let raw: u64 = kani::any();
        kani::assume(raw >> 32 == t);
        raw as u32
    }
    /// lengths / indices: values below 2^32
    pub fn usize(&mut self) -> usize {
        self.u32() as usize
    }
    pub fn char(&mut self) -> char {
        let v = self.u32();
        kani::assume(v < 0xD800 || (v > 0xDFFF && v < 0x11_0000));
        unsafe { char::from_u32_unchecked(v) }
    }
    pub fn u64(&mut self) -> u64 {
        let t = self.tag();
        let raw: u128 = kani::any();
        kani::assume((raw >> 64) as u64 == t);
        raw as u64
    }
    pub fn bytes<const N: usize>(&mut self) -> [u8; N] {
        let mut a = [0u8; N];
        let mut i = 0;
        while i < N {
            a[i] = self.u8();
            i += 1;
        }
        a
    }
    pub fn u64s<const N: usize>(&mut self) -> [u64; N] {
        let mut a = [0u64; N];
        let mut i = 0;
        while i < N {
            a[i] = self.u64();
            i += 1;
        }
        a
    }
}

/// Indirection for `filter.matches(request, regex_manager)` at the call sites of the bucket scan (textual
/// substitution in the scratch copy, semantically the identity). It gives the container kernels a free
/// function to stub: Kani does not apply stubs to trait-impl methods.
pub fn rule_matches(
    f: &crate::filters::network::NetworkFilter,
    request: &crate::request::Request,
    regex_manager: &mut crate::regex_manager::RegexManager,
) -> bool {
    use crate::filters::network::NetworkMatchable;
    f.matches(request, regex_manager)
}

/// Identity indirection for the one `format!("{:04x}", ch)` of `stringify_arg` (textual substitution in the
/// scratch copy). The C18.arg kernels stub it with a hand-written 4-digit lower-case hex formatter: that std's
/// `{:04x}` produces exactly those four bytes is trusted, not proved.
pub fn hex4(ch: u8) -> String {
    format!("{:04x}", ch)
}
#[cfg(kani)]
pub fn stub_hex4(ch: u8) -> String {
    fn d(x: u8) -> u8 {
        if x < 10 { b'0' + x } else { b'a' + (x - 10) }
    }
    let mut s = String::with_capacity(4);
    s.push('0');
    s.push('0');
    s.push(d(ch >> 4) as char);
    s.push(d(ch & 15) as char);
    s
}
/// `String::from_utf8` without the validation scan (the kernels assert on the bytes themselves)
#[cfg(kani)]
pub fn stub_from_utf8(v: Vec<u8>) -> Result<String, std::string::FromUtf8Error> {
    Ok(unsafe { String::from_utf8_unchecked(v) })
}
