//! C11.sep / C18.sep — child module of src/resources/resource_storage.rs.
use super::*;

/// the unescaped-separator scan behind `+js(...)` argument splitting: total, and the returned index is in
/// range and points at a separator that is preceded by an even number of backslashes.
#[kani::proof]
#[kani::unwind(6)]
fn c18_sep() {
    let mut dr = crate::verif_shim::Draw::new();
    let b: [u8; 3] = dr.bytes::<3>();
    let l: usize = dr.usize();
    kani::assume(l <= 3);
    let mut i = 0;
    while i < 3 {
        kani::assume(b[i] < 0x80 && b[i] >= 0x20);
        i += 1;
    }
    let s = unsafe { core::str::from_utf8_unchecked(&b[..l]) };
    let (idx, _t) = index_next_unescaped_separator(s, ',');
    if let Some(i) = idx {
        assert!(i < l && b[i] == b',', "P:sep.index_points_at_separator");
        let mut esc = 0;
        let mut k = i;
        while k > 0 && b[k - 1] == b'\\' {
            esc += 1;
            k -= 1;
        }
        assert!(esc % 2 == 0, "P:sep.separator_is_unescaped");
    } else {
        // no unescaped separator anywhere
        let mut j = 0;
        while j < 3 {
            if j < l && b[j] == b',' {
                let mut esc = 0;
                let mut k = j;
                while k > 0 && b[k - 1] == b'\\' {
                    esc += 1;
                    k -= 1;
                }
                assert!(esc % 2 == 1, "P:sep.none_means_all_escaped");
            }
            j += 1;
        }
    }
    kani::cover!(idx == Some(2), "W:sep.found_at_2");
    kani::cover!(idx.is_none() && l == 3 && b[2] == b',', "W:sep.escaped_separator");
}

