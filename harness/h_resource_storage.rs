//! C11.sep / C18.sep — child module of src/resources/resource_storage.rs.
use super::*;

/// the unescaped-separator scan behind `+js(...)` argument splitting: total, and the returned index is in
/// range and points at a separator that is preceded by an even number of backslashes.
#[kani::proof]
#[kani::unwind(6)]
fn c18_sep() {
    let mut dr = crate::verif_shim::Draw::new();
    let b: [u8; 3] = dr.bytes::<3>();
    let l: usize = dr.usize();
    kani::assume(l <= 3);
    let mut i = 0;
    while i < 3 {
        kani::assume(b[i] < 0x80 && b[i] >= 0x20);
        i += 1;
    }
    let s = unsafe { core::str::from_utf8_unchecked(&b[..l]) };
    let (idx, _t) = index_next_unescaped_separator(s, ',');
    if let Some(i) = idx {
        assert!(i < l && b[i] == b',', "P:sep.index_points_at_separator");
        let mut esc = 0;
        let mut k = i;
        while k > 0 && b[k - 1] == b'\\' {
            esc += 1;
            k -= 1;
        }
        assert!(esc % 2 == 0, "P:sep.separator_is_unescaped");
    } else {
        // no unescaped separator anywhere
        let mut j = 0;
        while j < 3 {
            if j < l && b[j] == b',' {
                let mut esc = 0;
                let mut k = j;
                while k > 0 && b[k - 1] == b'\\' {
                    esc += 1;
                    k -= 1;
                }
                assert!(esc % 2 == 1, "P:sep.none_means_all_escaped");
            }
            j += 1;
        }
    }
    kani::cover!(idx == Some(2), "W:sep.found_at_2");
    kani::cover!(idx.is_none() && l == 3 && b[2] == b',', "W:sep.escaped_separator");
}


// ------------------------------------------------------------------------------------------- C18.redirect_gate
/// the one resource the stubbed lookup hands back (name → resource is a `HashMap<String, Resource>`; the lookup
/// is replaced, everything after it in `get_redirect_resource` is the real code)
static mut GATE_RES: Option<Resource> = None;
fn stub_get_internal_resource<'a>(_s: &'a ResourceStorage, _ident: &str) -> Option<&'a Resource> {
    unsafe {
        let p: *const Option<Resource> = core::ptr::addr_of!(GATE_RES);
        (*p).as_ref()
    }
}
fn stub_fmt_format(_a: core::fmt::Arguments<'_>) -> String {
    String::new()
}
fn kind_of(k: u8) -> ResourceType {
    use crate::resources::MimeType;
    match k {
        0 => ResourceType::Template,
        1 => ResourceType::Mime(MimeType::TextCss),
        2 => ResourceType::Mime(MimeType::ImageGif),
        3 => ResourceType::Mime(MimeType::TextHtml),
        4 => ResourceType::Mime(MimeType::ApplicationJavascript),
        5 => ResourceType::Mime(MimeType::ApplicationJson),
        6 => ResourceType::Mime(MimeType::AudioMp3),
        7 => ResourceType::Mime(MimeType::VideoMp4),
        8 => ResourceType::Mime(MimeType::ImagePng),
        9 => ResourceType::Mime(MimeType::TextPlain),
        10 => ResourceType::Mime(MimeType::TextXml),
        11 => ResourceType::Mime(MimeType::FnJavascript),
        _ => ResourceType::Mime(MimeType::Unknown),
    }
}

/// "a resource that requires any permission is never served as a redirect", and only redirectable kinds are:
/// the real `get_redirect_resource` after the name lookup, for every permission byte × every resource kind.
#[kani::proof]
#[kani::unwind(4)]
#[kani::stub(ResourceStorage::get_internal_resource, stub_get_internal_resource)]
#[kani::stub(alloc::fmt::format, stub_fmt_format)]
#[kani::stub(std::hash::RandomState::new, crate::verif_shim::stub_random_state_new)]
fn c18_redirect_gate() {
    let mut dr = crate::verif_shim::Draw::new();
    let p: u8 = dr.u8();
    let k: u8 = dr.u8();
    kani::assume(k <= 12);
    unsafe {
        GATE_RES = Some(Resource {
            name: String::new(),
            aliases: Vec::new(),
            kind: kind_of(k),
            content: String::new(),
            dependencies: Vec::new(),
            permission: PermissionMask::from_bits(p),
        });
    }
    let st = ResourceStorage::default();
    let got = st.get_redirect_resource("x").is_some();
    let want = p == 0 && k != 0 && k != 11;
    assert!(!(got && p != 0), "P:redirect.permissioned_resource_never_served");
    assert!(!(got && (k == 0 || k == 11)), "P:redirect.only_redirectable_kinds");
    assert!(got == want, "P:redirect.served_iff_unpermissioned_and_redirectable");
    kani::cover!(got, "W:redirect.served");
    kani::cover!(!got && p != 0 && k == 2, "W:redirect.refused_for_permission");
    core::mem::forget(st);
}

// ------------------------------------------------------------------------------------------- C18.scriptlet_gate
/// the permission gate every scriptlet and every transitive dependency passes through: the real
/// `get_permissioned_resource` after the name lookup, for every (required, granted) pair, resource found or not.
#[kani::proof]
#[kani::unwind(4)]
#[kani::stub(ResourceStorage::get_internal_resource, stub_get_internal_resource)]
#[kani::stub(std::hash::RandomState::new, crate::verif_shim::stub_random_state_new)]
fn c18_scriptlet_gate() {
    let mut dr = crate::verif_shim::Draw::new();
    let required: u8 = dr.u8();
    let granted: u8 = dr.u8();
    let found: bool = dr.bool();
    unsafe {
        GATE_RES = if found {
            Some(Resource {
                name: String::new(),
                aliases: Vec::new(),
                kind: ResourceType::Template,
                content: String::new(),
                dependencies: Vec::new(),
                permission: PermissionMask::from_bits(required),
            })
        } else {
            None
        };
    }
    let st = ResourceStorage::default();
    let r = st.get_permissioned_resource("x", PermissionMask::from_bits(granted));
    let subset = required & !granted == 0;
    match r {
        Ok(_) => assert!(found && subset, "P:gate.served_only_with_all_required_bits"),
        Err(ScriptletResourceError::InsufficientPermissions) => assert!(found && !subset, "P:gate.refused_only_when_a_bit_is_missing"),
        Err(ScriptletResourceError::NoMatchingScriptlet) => assert!(!found, "P:gate.unknown_only_when_absent"),
        Err(_) => assert!(false, "P:gate.no_other_error"),
    }
    kani::cover!(found && subset && required != 0, "W:gate.served_privileged");
    kani::cover!(found && !subset, "W:gate.refused");
    core::mem::forget(st);
}
