//! C10.header — child module of src/data_format/mod.rs.
use super::*;

/// The v0 body decoder is rmp-serde (out of reach); the kernel is the dispatch in front of it.
pub fn stub_v0_deser(_b: &[u8]) -> Result<v0::DeserializeFormat, DeserializationError> {
    Err(DeserializationError::NoHeaderFound)
}

fn header_dispatch<const N: usize>() {
    let mut dr = crate::verif_shim::Draw::new();
    let buf: [u8; N] = dr.bytes::<N>();
    let len: usize = dr.usize();
    kani::assume(len <= N);
    let r = DeserializeFormat::deserialize(&buf[..len]);
    kani::cover!(matches!(r, Err(DeserializationError::UnsupportedFormatVersion(_))), "W:header.version_arm");
    kani::cover!(matches!(r, Err(DeserializationError::LegacyFormatNoLongerSupported)), "W:header.gzip_arm");
    kani::cover!(matches!(r, Err(DeserializationError::NoHeaderFound)) && len >= 5 && buf[4] == 0, "W:header.v0_arm");
    core::mem::forget(r);
}

#[kani::proof]
#[kani::unwind(14)]
#[kani::stub(crate::data_format::v0::DeserializeFormat::deserialize, stub_v0_deser)]
fn c10_header() {
    header_dispatch::<11>();
}

#[kani::proof]
#[kani::unwind(20)]
#[kani::stub(crate::data_format::v0::DeserializeFormat::deserialize, stub_v0_deser)]
fn c10_header_16() {
    header_dispatch::<16>();
}
