#!/bin/bash
# Machinery self-check: hand-written mutants of /repo (seeded_hand/<id>/patch.diff, prop) — each is applied to
# /repo, the quick check of the property it should break is run, and the patch is undone straight afterwards.
# These are NOT independent seeded defects (they were written knowing the kernels); they exercise the
# VIOLATION path of kernels that no sub-agent change happened to hit: decode -> native replay -> exit 1.
cd /verif
for d in seeded_hand/*/; do
  id=$(basename $d); prop=$(cat $d/prop)
  if ! git -C /repo apply --check $PWD/$d/patch.diff 2>/dev/null; then echo "$id: patch does not apply"; continue; fi
  git -C /repo apply $PWD/$d/patch.diff
  if ! (cd /repo && cargo check --offline --lib -q 2>/dev/null); then echo "$id: does not compile"; git -C /repo checkout -- .; continue; fi
  out=$(./vk check $prop --tier quick --no-evidence 2>&1); rc=$?
  git -C /repo checkout -- .
  echo "$id ($prop): exit $rc  $(echo "$out" | grep -E 'VIOLATION|INCONCLUSIVE|BROKEN' | head -2 | cut -c1-140 | tr '\n' ' ')"
  echo "$rc" > $d/result
done
