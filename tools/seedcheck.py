#!/usr/bin/env python3
"""seedcheck — confirm a seeded defect and run the checks against it.

  seedcheck.py confirm <src-dir> <seed-id> <property> [--worktree DIR]
      src-dir holds patch.diff, demo.rs, notes.md (as delivered by a sub-agent). In a scratch worktree of /repo:
      demo passes on the clean tree, patch applies, crate compiles, demo FAILS with the patch, the baseline suite
      gives the same per-test results as on the clean tree. On success the seed is stored as
      /verif/seeded/<seed-id>/{patch.diff,demo.rs,notes.md,meta.json}.
  seedcheck.py detect <seed-id> [--tier quick] [--props C01,C02]
      git -C /repo apply the patch, run the listed checks (default: the property the seed breaks), undo the patch
      straight afterwards, record exit codes in meta.json.
"""
import sys, os, subprocess, json, re, shutil, argparse, time

VERIF = os.path.dirname(os.path.dirname(os.path.abspath(__file__)))
REPO = "/repo"
ENV = dict(os.environ, CARGO_NET_OFFLINE="true")


def sh(cmd, cwd=None, env=None, timeout=3600):
    r = subprocess.run(cmd, cwd=cwd, env=env or ENV, capture_output=True, text=True, timeout=timeout)
    return r.returncode, r.stdout + r.stderr


def suite_results(wt, env):
    rc, out = sh(["cargo", "test", "--workspace", "--no-fail-fast", "--offline"], cwd=wt, env=env, timeout=3600)
    res = {}
    for m in re.finditer(r"^test (\S+)(?: - [^\n]*?)? \.\.\. (\w+)", out, re.M):
        res[m.group(1)] = m.group(2)
    return res, out


def confirm(src, sid, prop, wt=None):
    own = wt is None
    if own:
        wt = "/tmp/seedwt-%s" % sid
        sh(["git", "-C", REPO, "worktree", "remove", "--force", wt])
        rc, out = sh(["git", "-C", REPO, "worktree", "add", "--detach", wt, "HEAD"])
        assert rc == 0, out
    env = dict(ENV, CARGO_TARGET_DIR=os.path.join(wt, "target"))
    meta = {"seed": sid, "property": prop, "repo_head": sh(["git", "-C", REPO, "rev-parse", "--short", "HEAD"])[1].strip(), "ran": []}
    ok = True
    try:
        sh(["git", "checkout", "--", "."], cwd=wt)
        demo_dst = os.path.join(wt, "tests", "seeded_demo.rs")
        shutil.copy(os.path.join(src, "demo.rs"), demo_dst)
        rc, out = sh(["cargo", "test", "--offline", "--test", "seeded_demo"], cwd=wt, env=env)
        meta["ran"].append({"cmd": "cargo test --offline --test seeded_demo  (clean tree)", "rc": rc})
        meta["demo_passes_clean"] = rc == 0
        base_file = "/tmp/seed-baseline-%s.json" % meta["repo_head"]
        if os.path.exists(base_file):
            base = json.load(open(base_file))
        else:
            os.remove(demo_dst)
            base, _ = suite_results(wt, env)
            json.dump(base, open(base_file, "w"))
            shutil.copy(os.path.join(src, "demo.rs"), demo_dst)
        rc, out = sh(["git", "apply", os.path.join(os.path.abspath(src), "patch.diff")], cwd=wt)
        meta["patch_applies"] = rc == 0
        assert rc == 0, out
        rc, out = sh(["cargo", "test", "--offline", "--test", "seeded_demo"], cwd=wt, env=env)
        meta["ran"].append({"cmd": "cargo test --offline --test seeded_demo  (patched)", "rc": rc})
        meta["compiles"] = "error: could not compile" not in out
        meta["demo_fails_patched"] = rc != 0 and meta["compiles"]
        os.remove(demo_dst)
        res, out = suite_results(wt, env)
        diff = {k: (base.get(k), res.get(k)) for k in set(base) | set(res) if base.get(k) != res.get(k)}
        meta["ran"].append({"cmd": "cargo test --workspace --no-fail-fast --offline  (patched; %d tests)" % len(res), "differs_from_clean": diff})
        meta["suite_unchanged"] = not diff and len(res) > 200
        ok = meta["demo_passes_clean"] and meta["demo_fails_patched"] and meta["suite_unchanged"]
    finally:
        sh(["git", "checkout", "--", "."], cwd=wt)
        sh(["git", "clean", "-fd", "-e", "target"], cwd=wt)
        if own:
            sh(["git", "-C", REPO, "worktree", "remove", "--force", wt])
    meta["confirmed"] = ok
    print(json.dumps({k: v for k, v in meta.items() if k != "ran"}, indent=1))
    if ok:
        dst = os.path.join(VERIF, "seeded", sid)
        os.makedirs(dst, exist_ok=True)
        for f in ("patch.diff", "demo.rs", "notes.md"):
            if os.path.exists(os.path.join(src, f)):
                shutil.copy(os.path.join(src, f), os.path.join(dst, f))
        notes = open(os.path.join(src, "notes.md")).read() if os.path.exists(os.path.join(src, "notes.md")) else ""
        meta["needs_to_manifest"] = notes[:1500]
        json.dump(meta, open(os.path.join(dst, "meta.json"), "w"), indent=1)
    return 0 if ok else 1


def detect(sid, tier, props):
    dst = os.path.join(VERIF, "seeded", sid)
    meta = json.load(open(os.path.join(dst, "meta.json")))
    props = props or [meta["property"]]
    rc, out = sh(["git", "-C", REPO, "status", "--porcelain", "--", "src"])
    assert not out.strip(), "/repo has uncommitted changes under src/"
    rc, out = sh(["git", "-C", REPO, "apply", os.path.join(dst, "patch.diff")])
    assert rc == 0, out
    results = {}
    try:
        for p in props:
            t0 = time.time()
            r = subprocess.run([os.path.join(VERIF, "vk"), "check", p, "--tier", tier, "--no-evidence"], cwd=VERIF, capture_output=True, text=True, env=ENV)
            lines = [l for l in r.stdout.splitlines() if l.startswith(("VIOLATION", "vk: INCONCLUSIVE", "vk: BROKEN")) or " fail " in l or "inconclusive" in l]
            results[p] = {"exit": r.returncode, "wall_s": round(time.time() - t0), "lines": lines[:12]}
            print(p, "exit", r.returncode, *lines[:6], sep="\n  ")
    finally:
        sh(["git", "-C", REPO, "checkout", "--", "."])
    meta.setdefault("detection", {})[tier] = results
    meta["detected_by"] = sorted(set(meta.get("detected_by", [])) | {p for p, r in results.items() if r["exit"] == 1})
    json.dump(meta, open(os.path.join(dst, "meta.json"), "w"), indent=1)
    return 0


if __name__ == "__main__":
    ap = argparse.ArgumentParser()
    sub = ap.add_subparsers(dest="cmd", required=True)
    c = sub.add_parser("confirm"); c.add_argument("src"); c.add_argument("sid"); c.add_argument("prop"); c.add_argument("--worktree")
    d = sub.add_parser("detect"); d.add_argument("sid"); d.add_argument("--tier", default="quick"); d.add_argument("--props")
    a = ap.parse_args()
    if a.cmd == "confirm":
        sys.exit(confirm(a.src, a.sid, a.prop, a.worktree))
    sys.exit(detect(a.sid, a.tier, a.props.split(",") if a.props else None))
