#!/usr/bin/env python3
"""Regenerates MANIFEST.json from kernels.py (single source of truth for what is claimed)."""
import json, os, sys
sys.path.insert(0, os.path.dirname(os.path.abspath(__file__)))
import kernels as K

checks = []
for pid, p in K.PROPERTIES.items():
    if pid.startswith("SELF"):
        continue
    quick = [k["id"] for k in p["kernels"] if "quick" in k["tiers"]]
    thorough = [k["id"] for k in p["kernels"] if "thorough" in k["tiers"]]
    checks.append({
        "property_id": pid,
        "quick_cmd": "./vk check %s --tier quick" % pid,
        "thorough_cmd": "./vk check %s --tier thorough" % pid,
        "evidence_file": "/verif/evidence/%s.json" % pid,
        "replay_cmd_template": "./vk replay {path}",
        "engine": "vk",
        "level_claimed": {"category": "model_checking", "text": p["level_text"] + " Quick kernels: %s. Thorough kernels: %s." % (", ".join(quick), ", ".join(thorough)),
                          "design_ref": "DESIGN.md section 5, " + pid},
        "level_note": p["level_note"],
        "technique": p.get("technique", "bounded symbolic execution of the real functions (Kani 0.68 -> CBMC 6.11 -> CaDiCaL SAT), counterexamples replayed natively"),
    })
m = {
    "version": 1,
    "setup_cmd": "./vk setup",
    "hooks": {"guard": "kani", "enable": "no hook is committed to /repo: harness modules are appended (#[cfg(kani)] #[path=...] mod verif_kani;) to a scratch copy of /repo's working tree on every run",
              "baseline_off_cmd": "cd /repo && cargo test --workspace --no-fail-fast --offline", "source_commits": [], "add_only": True},
    "engines": [{"name": "vk", "path": "/verif/vk", "serves_properties": [c["property_id"] for c in checks],
                 "kind_free_text": "python driver: scratch copy of /repo + harness injection -> cargo kani (CBMC, CaDiCaL) per kernel -> per-check classification -> concrete-playback decode -> native replay (dev+release) -> evidence"}],
    "checks": checks,
    "notes": K.NOTES,
    "not_applicable": [{"property_id": k, "reason": v} for k, v in sorted(K.NOT_APPLICABLE.items())],
}
json.dump(m, open(os.path.join(os.path.dirname(os.path.abspath(__file__)), "MANIFEST.json"), "w"), indent=1)
print("MANIFEST.json: %d checks, %d not applicable" % (len(checks), len(m["not_applicable"])))
