//! vkreplay — re-executes one decoded counterexample natively against the real adblock build.
//! stdin: the case JSON written by `vk`; stdout (last line): {"reproduced": bool, ...}.
use serde_json::{json, Value};
use std::io::Read;
use std::panic::{catch_unwind, AssertUnwindSafe};

mod cases;

fn main() {
    let mut s = String::new();
    std::io::stdin().read_to_string(&mut s).unwrap();
    let case: Value = serde_json::from_str(&s).expect("case json");
    let which = case["replay"].as_str().unwrap_or("").to_string();
    let vals = case["values"].clone();
    std::panic::set_hook(Box::new(|_| {}));
    let r = catch_unwind(AssertUnwindSafe(|| cases::dispatch(&which, &vals, &case)));
    let out = match r {
        Ok(v) => v,
        Err(e) => {
            let msg = e.downcast_ref::<String>().cloned().or_else(|| e.downcast_ref::<&str>().map(|s| s.to_string())).unwrap_or_default();
            json!({"reproduced": false, "error": format!("replay routine panicked: {}", msg)})
        }
    };
    println!("{}", out);
}
