//! Native replay routines: each re-executes one decoded counterexample against the real build through the
//! public API (real seahash, real memchr, real regex crate, no stubs) and says whether the real code
//! violates the kernel's assertion on that input.
use adblock::blocker::{Blocker, BlockerOptions};
use adblock::filters::network::{FilterPart, NetworkFilter, NetworkFilterMask, NetworkMatchable};
use adblock::regex_manager::RegexManager;
use adblock::request::{Request, RequestType};
use adblock::resources::{PermissionMask, ResourceStorage};
use adblock::utils::fast_hash;
use adblock::Engine;
use serde_json::{json, Value};
use std::panic::{catch_unwind, AssertUnwindSafe};

pub fn bytes(v: &Value) -> Vec<u8> {
    v.as_array().map(|a| a.iter().map(|x| x.as_u64().unwrap_or(0) as u8).collect()).unwrap_or_default()
}
pub fn u64s(v: &Value) -> Vec<u64> {
    v.as_array().map(|a| a.iter().map(|x| x.as_u64().unwrap_or(0)).collect()).unwrap_or_default()
}
pub fn u(v: &Value) -> u64 {
    v.as_u64().unwrap_or(0)
}
pub fn b(v: &Value) -> bool {
    v.as_bool().unwrap_or(false)
}
fn sub(v: &Value, name: &str, len: &str) -> String {
    let bs = bytes(&v[name]);
    let l = (u(&v[len]) as usize).min(bs.len());
    String::from_utf8_lossy(&bs[..l]).to_string()
}
pub fn panic_msg(e: Box<dyn std::any::Any + Send>) -> String {
    e.downcast_ref::<String>().cloned().or_else(|| e.downcast_ref::<&str>().map(|s| s.to_string())).unwrap_or_else(|| "panic".into())
}

/// An arbitrary rule value. `tag` is crate-private, so a value is obtained from the parser and its public
/// fields are overwritten.
fn mk_filter(mask: u32, filter: FilterPart, hostname: Option<String>, tag: Option<&str>) -> NetworkFilter {
    let line = match tag {
        Some(t) => format!("a$tag={}", t),
        None => "a".to_string(),
    };
    let mut f = NetworkFilter::parse(&line, false, Default::default()).expect("seed rule parses");
    f.mask = NetworkFilterMask::from_bits_retain(mask);
    f.filter = filter;
    f.hostname = hostname;
    f.opt_domains = None;
    f.opt_not_domains = None;
    f.opt_domains_union = None;
    f.opt_not_domains_union = None;
    f.modifier_option = None;
    f.raw_line = None;
    f.id = f.get_id();
    f
}
fn mk_request(url: &str, hostname: &str, rt: RequestType, http: bool, https: bool, tp: bool, src: Option<Vec<u64>>) -> Request {
    let mut r = Request::preparsed(url, hostname, "", "script", tp);
    r.request_type = rt;
    r.is_http = http;
    r.is_https = https;
    r.is_supported = true;
    r.is_third_party = tp;
    r.source_hostname_hashes = src;
    r
}
fn matches(f: &NetworkFilter, r: &Request) -> bool {
    f.matches(r, &mut RegexManager::default())
}
fn blocker_of(fs: Vec<NetworkFilter>, optimize: bool) -> Blocker {
    Blocker::new(fs, &BlockerOptions { enable_optimizations: optimize })
}

pub fn dispatch(which: &str, v: &Value, case: &Value) -> Value {
    let check = case["check"].as_str().unwrap_or("");
    match which {
        "c10_header" => c10_header(v),
        "c10_rule_a" => c10_rule_a(v),
        "c10_atomic" => c10_atomic(v),
        "c18_perm" => c18_perm(v),
        "c18_sep" => c18_sep(v),
        "c18_scriptlet_gate" => c18_scriptlet_gate(v),
        "c18_redirect_gate" => c18_redirect_gate(v),
        "c01_tok" => c01_tok(v),
        "c01_star" => c01_star(v),
        "c01_l1c" => c01_l1c(v),
        "c01_scan" => c01_scan(v),
        "c04_prec" => c04_prec(v),
        "c01_bin" => c01_bin(v),
        "c01_flags" => c01_flags(v),
        "c01_host_tokens" => c01_host_tokens(v),
        "c01_flags_host" => c01_flags_host(v),
        "c01_dom" => c01_dom(v),
        "c01_scheme" => c01_scheme(v),
        "c02_anchor" => c02_anchor(v),
        "c02_plain" => c02_plain(v),
        "c02_host" => c02_host(v),
        "c03_opts" => c03_opts(v),
        "c04_id" => c04_id(v, check),
        "c05_fuse" => c05_fuse(v),
        "c08_rule" => c08_rule(v, check),
        // a positional mismatch can hit any field: run the whole battery
        "c08_order" => c08_rule(v, "mask hostname tag domain modifier_option pattern id raw_line"),
        "c11_split" => c11_split(v),
        "c12_scheme" => c12_scheme(v),
        "c12_types" => c12_types(v),
        "c12_presplit" => c12_presplit(v),
        "c12_presplit_long" => c12_presplit_long(v),
        "c05_select" => c05_select(v),
        "c12_srchash" => c12_srchash(v),
        "c16_labels" => c16_labels(v, false),
        "c16_entity" => c16_labels(v, true),
        "c16_generic" => c16_generic(v),
        "selftest" => {
            let r = u(&v["r"]) as u8;
            json!({"reproduced": !PermissionMask::from_bits(r).is_injectable_by(PermissionMask::from_bits(0))})
        }
        _ => json!({"reproduced": false, "error": format!("unknown replay routine {}", which), "case": case["kernel"]}),
    }
}

// ------------------------------------------------------------------------------------------------- C10
/// the buffer is fed to the public Engine::deserialize; a panic reproduces the finding
fn c10_header(v: &Value) -> Value {
    let buf = bytes(&v["buf"]);
    let len = (u(&v["len"]) as usize).min(buf.len());
    let data = buf[..len].to_vec();
    let r = catch_unwind(AssertUnwindSafe(|| {
        let mut e = Engine::default();
        e.deserialize(&data).is_ok()
    }));
    match r {
        Ok(ok) => json!({"reproduced": false, "deserialize_ok": ok, "input": data}),
        Err(e) => json!({"reproduced": true, "panic": panic_msg(e), "input": data, "api": "Engine::deserialize"}),
    }
}
/// a failed load must leave the engine as it was: enabled tags, answers, and a following tag operation
fn c10_atomic(v: &Value) -> Value {
    let buf = bytes(&v["buf"]);
    let len = (u(&v["len"]) as usize).min(buf.len());
    let data = buf[..len].to_vec();
    let mut e = Engine::from_rules(["adv$tag=a", "bdv"], Default::default());
    e.use_tags(&["a"]);
    let req = Request::new("https://x.com/adv", "https://y.com/", "script").unwrap();
    let before = (e.tag_exists("a"), e.check_network_request(&req).matched);
    let r = catch_unwind(AssertUnwindSafe(|| e.deserialize(&data).is_ok()));
    match r {
        Err(p) => json!({"reproduced": true, "panic": panic_msg(p), "input": data}),
        Ok(true) => json!({"reproduced": false, "note": "buffer loaded successfully", "input": data}),
        Ok(false) => {
            let after = (e.tag_exists("a"), e.check_network_request(&req).matched);
            e.enable_tags(&["zz"]);
            let after_op = (e.tag_exists("a"), e.check_network_request(&req).matched);
            json!({"reproduced": before != after || before != after_op, "before": format!("{:?}", before), "after_failed_load": format!("{:?}", after), "after_enable_other_tag": format!("{:?}", after_op), "input": data,
                   "api": "Engine::deserialize (Err) + tag_exists / check_network_request / enable_tags"})
        }
    }
}
fn c10_rule_a(v: &Value) -> Value {
    let m = u(&v["m"]) as u32;
    let r = catch_unwind(AssertUnwindSafe(|| {
        let f = mk_filter(m, FilterPart::Empty, None, None);
        let req = Request::new("https://a/", "", "script").unwrap();
        let a = matches(&f, &req);
        // and through the engine-level container
        let bl = blocker_of(vec![f], false);
        let _ = bl.check(&req, &ResourceStorage::default());
        a
    }));
    match r {
        Ok(a) => json!({"reproduced": false, "matches": a, "mask": m}),
        Err(e) => json!({"reproduced": true, "panic": panic_msg(e), "mask": m, "api": "NetworkMatchable::matches / Blocker::check on a rule value with this mask and no hostname"}),
    }
}

// ------------------------------------------------------------------------------------------------- C18
fn c18_perm(v: &Value) -> Value {
    let (r, f) = (u(&v["required"]) as u8, u(&v["granted"]) as u8);
    let got = PermissionMask::from_bits(r).is_injectable_by(PermissionMask::from_bits(f));
    let want = r & !f == 0;
    // union: PermissionMask has no public accessor; x == a|b  <=>  x and from_bits(a|b) are mutually injectable
    let mut acc = PermissionMask::from_bits(r);
    acc |= PermissionMask::from_bits(f);
    let u1 = PermissionMask::from_bits(r | f);
    let union_ok = acc.is_injectable_by(u1) && u1.is_injectable_by(acc) && (PermissionMask::from_bits(r) | PermissionMask::from_bits(f)).is_injectable_by(u1) && u1.is_injectable_by(PermissionMask::from_bits(r) | PermissionMask::from_bits(f));
    json!({"reproduced": got != want || !union_ok, "got": got, "want": want, "union_ok": union_ok})
}
/// public API: a `+js(r)` rule from a list granted `granted`, resource `r.js` requiring `required`; once as the
/// scriptlet itself and once as a dependency of an unprivileged scriptlet
fn c18_scriptlet_gate(v: &Value) -> Value {
    use adblock::lists::ParseOptions;
    use adblock::resources::{MimeType, Resource, ResourceType};
    let (required, granted, found) = (u(&v["required"]) as u8, u(&v["granted"]) as u8, b(&v["found"]));
    let subset = required & !granted == 0;
    let run = |rule: &str| -> String {
        let mut fs = adblock::FilterSet::new(true);
        fs.add_filters([rule], ParseOptions { permissions: PermissionMask::from_bits(granted), ..Default::default() });
        let mut e = Engine::from_filter_set(fs, true);
        let mut rs = vec![];
        if found {
            // function privileged() { /*PRIV*/ }
            rs.push(Resource { name: "privileged.js".into(), aliases: vec![], kind: ResourceType::Mime(MimeType::ApplicationJavascript), content: "ZnVuY3Rpb24gcHJpdmlsZWdlZCgpIHsgLypQUklWKi8gfQ==".into(), dependencies: vec![], permission: PermissionMask::from_bits(required) });
            // function helper() { /*HELPER*/ }
            rs.push(Resource { name: "helper.fn".into(), aliases: vec![], kind: ResourceType::Mime(MimeType::FnJavascript), content: "ZnVuY3Rpb24gaGVscGVyKCkgeyAvKkhFTFBFUiovIH0=".into(), dependencies: vec![], permission: PermissionMask::from_bits(required) });
            // function outer() { /*OUTER*/ }
            rs.push(Resource { name: "outer.js".into(), aliases: vec![], kind: ResourceType::Mime(MimeType::ApplicationJavascript), content: "ZnVuY3Rpb24gb3V0ZXIoKSB7IC8qT1VURVIqLyB9".into(), dependencies: vec!["helper.fn".into()], permission: PermissionMask::default() });
        }
        e.use_resources(rs);
        e.url_cosmetic_resources("https://example.com/").injected_script
    };
    let direct = run("example.com##+js(privileged)").contains("/*PRIV*/");
    let dep = run("example.com##+js(outer)").contains("/*HELPER*/");
    let want = found && subset;
    json!({"reproduced": direct != want || dep != want, "direct": direct, "via_dependency": dep, "want": want, "required": required, "granted": granted, "found": found})
}
/// public API: a storage holding one resource of the given kind and permission, asked for as a redirect
fn c18_redirect_gate(v: &Value) -> Value {
    use adblock::resources::{MimeType, Resource, ResourceType};
    let (p, k) = (u(&v["p"]) as u8, u(&v["k"]) as u8);
    let kind = match k {
        0 => ResourceType::Template,
        1 => ResourceType::Mime(MimeType::TextCss),
        2 => ResourceType::Mime(MimeType::ImageGif),
        3 => ResourceType::Mime(MimeType::TextHtml),
        4 => ResourceType::Mime(MimeType::ApplicationJavascript),
        5 => ResourceType::Mime(MimeType::ApplicationJson),
        6 => ResourceType::Mime(MimeType::AudioMp3),
        7 => ResourceType::Mime(MimeType::VideoMp4),
        8 => ResourceType::Mime(MimeType::ImagePng),
        9 => ResourceType::Mime(MimeType::TextPlain),
        10 => ResourceType::Mime(MimeType::TextXml),
        11 => ResourceType::Mime(MimeType::FnJavascript),
        _ => ResourceType::Mime(MimeType::Unknown),
    };
    // base64 of "function f() {}" — valid for every textual kind, and for fn/javascript a parsable definition
    let res = Resource { name: "r".into(), aliases: vec![], kind, content: "ZnVuY3Rpb24gZigpIHt9".into(), dependencies: vec![], permission: PermissionMask::from_bits(p) };
    let mut st = ResourceStorage::default();
    let added = st.add_resource(res).is_ok();
    let got = st.get_redirect_resource("r").is_some();
    let want = p == 0 && k != 0 && k != 11;
    json!({"reproduced": added && got != want, "added": added, "got": got, "want": want, "p": p, "k": k})
}
/// the separator scan is private; lifted through a `+js(...)` cosmetic rule whose argument list is the string
fn c18_sep(v: &Value) -> Value {
    let s = sub(v, "b", "l");
    let rule = format!("example.com##+js(x, {})", s);
    let r = catch_unwind(AssertUnwindSafe(|| {
        let mut fs = adblock::FilterSet::new(true);
        let _ = fs.add_filter(&rule, Default::default());
        let e = Engine::from_filter_set(fs, false);
        e.url_cosmetic_resources("https://example.com/").injected_script.len()
    }));
    match r {
        Ok(n) => json!({"reproduced": false, "note": "only panics can be lifted through the public API for this kernel", "script_len": n, "rule": rule}),
        Err(e) => json!({"reproduced": true, "panic": panic_msg(e), "rule": rule}),
    }
}

// ------------------------------------------------------------------------------------------------- C01
fn tok_strings(v: &Value) -> (String, String) {
    let f = sub(v, "fb", "fl").to_ascii_lowercase();
    let mut url = String::new();
    if b(&v["has_pre2"]) {
        url.push(u(&v["pre2"]) as u8 as char);
    }
    if b(&v["has_pre"]) {
        url.push(u(&v["pre"]) as u8 as char);
    }
    url.push_str(&f);
    if b(&v["has_post"]) {
        url.push(u(&v["post"]) as u8 as char);
    }
    if b(&v["has_post2"]) {
        url.push(u(&v["post2"]) as u8 as char);
    }
    (f, url.to_ascii_lowercase())
}
/// rule value with the literal pattern and anchors; request whose URL text is the constructed string.
/// Reproduced iff the real per-rule matcher accepts and a token the rule can be filed under is not among the
/// request's tokens; `engine_lost` additionally says whether a one-rule Blocker then misses the request.
fn c01_tok(v: &Value) -> Value {
    let (f, url) = tok_strings(v);
    let (la, ra) = (b(&v["la"]), b(&v["ra"]));
    let mut mask = NetworkFilterMask::DEFAULT_OPTIONS;
    if la {
        mask |= NetworkFilterMask::IS_LEFT_ANCHOR;
    }
    if ra {
        mask |= NetworkFilterMask::IS_RIGHT_ANCHOR;
    }
    let nf = mk_filter(mask.bits(), FilterPart::Simple(f.clone()), None, None);
    let req = mk_request(&url, "x.com", RequestType::Script, false, true, false, None);
    let m = matches(&nf, &req);
    let groups = nf.get_tokens();
    let rt: Vec<u64> = req.get_tokens().clone();
    let missing: Vec<u64> = groups.iter().flatten().filter(|t| !rt.contains(t)).cloned().collect();
    let bl = blocker_of(vec![nf], false);
    let engine = bl.check(&req, &ResourceStorage::default()).matched;
    // API lift through rule text where the text round-trips
    let line = format!("{}{}{}", if la { "|" } else { "" }, f, if ra { "|" } else { "" });
    let lifted = NetworkFilter::parse(&line, false, Default::default()).ok().map(|p| {
        let same = matches!(&p.filter, FilterPart::Simple(s) if *s == f) && p.mask.contains(NetworkFilterMask::IS_LEFT_ANCHOR) == la && p.mask.contains(NetworkFilterMask::IS_RIGHT_ANCHOR) == ra && p.hostname.is_none();
        let e = Engine::from_rules([line.clone()], Default::default());
        json!({"rule_text_roundtrips": same, "matcher": matches(&p, &req), "engine": e.check_network_request(&req).matched})
    });
    json!({"reproduced": m && !missing.is_empty(), "rule": line, "url": url, "matcher_accepts": m, "rule_tokens_missing_from_request": missing.len(),
           "engine_matched": engine, "engine_lost": m && !engine, "lift": lifted})
}
/// The bucket scan is crate-private. Lift: the two rules become exception rules (exceptions stay in one list
/// whatever their tag; check() scans it) or csp rules (check_all()), next to a catch-all blocking rule; rule i is
/// given an empty pattern when the counterexample says it matches and a never-matching literal otherwise.
fn c01_scan(v: &Value) -> Value {
    let tags: Vec<Option<String>> = v["tags"].as_array().map(|a| a.iter().map(|t| t.as_str().map(|s| s.to_string())).collect()).unwrap_or_default();
    let a_on = b(&v["a_on"]);
    let all = b(&v["all"]);
    let outcomes = [b(&v["o1"]), b(&v["o2"])];
    let rt = if all { RequestType::Document } else { match u(&v["rt"]) % 3 { 0 => RequestType::Script, 1 => RequestType::Document, _ => RequestType::Image } };
    let req = mk_request("https://x.com/page", "x.com", rt, false, true, b(&v["tp"]), None);
    let mut rules = vec![];
    let mut want = vec![];
    for i in 0..2 {
        let tag = tags.get(i).cloned().flatten();
        let mut mask = NetworkFilterMask::DEFAULT_OPTIONS | NetworkFilterMask::FROM_DOCUMENT;
        if all { mask |= NetworkFilterMask::IS_CSP; } else { mask |= NetworkFilterMask::IS_EXCEPTION; }
        let part = if outcomes[i] { FilterPart::Empty } else { FilterPart::Simple("zz-never-in-url".into()) };
        let mut f = mk_filter(mask.bits(), part, None, tag.as_deref());
        if all { f.modifier_option = Some(format!("d{}", i + 1)); }
        f.id = (i + 1) as u64;
        let active = tag.as_deref().map(|t| a_on && t == "a").unwrap_or(true);
        want.push(outcomes[i] && active);
        rules.push(f);
    }
    let mut catch_all = mk_filter((NetworkFilterMask::DEFAULT_OPTIONS | NetworkFilterMask::FROM_DOCUMENT).bits(), FilterPart::Empty, None, None);
    catch_all.id = 99;
    rules.push(catch_all);
    let mut bl = blocker_of(rules, false);
    if a_on { bl.use_tags(&["a"]); }
    if all {
        let csp = bl.get_csp_directives(&req).unwrap_or_default();
        let got: Vec<bool> = (0..2).map(|i| csp.split(',').any(|d| d == format!("d{}", i + 1))).collect();
        json!({"reproduced": got != want, "csp": csp, "want": want, "api": "Blocker::get_csp_directives (check_all)"})
    } else {
        let r = bl.check(&req, &ResourceStorage::default());
        let got = r.exception.is_some();
        let w = want[0] || want[1];
        json!({"reproduced": got != w, "exception_found": got, "want": w, "matched": r.matched, "api": "Blocker::check (exception list scan)"})
    }
}
/// rule i matches iff the counterexample says so: empty pattern vs a literal that never occurs
fn outcome_part(o: bool) -> FilterPart {
    if o { FilterPart::Empty } else { FilterPart::Simple("zz-never-in-url".into()) }
}
/// precedence, lifted to Blocker::new + check_parameterised on rule values of the same categories
fn c04_prec(v: &Value) -> Value {
    let (o1, o2, o3) = (b(&v["o1"]), b(&v["o2"]), b(&v["o3"]));
    let (matched_rule, force, tagged, a_on) = (b(&v["matched_rule"]), b(&v["force"]), b(&v["tagged"]), b(&v["a_on"]));
    let d = NetworkFilterMask::DEFAULT_OPTIONS;
    let mut rules = if !tagged {
        vec![mk_filter((d | NetworkFilterMask::IS_IMPORTANT).bits(), outcome_part(o1), None, None), mk_filter(d.bits(), outcome_part(o2), None, None),
             mk_filter((d | NetworkFilterMask::IS_EXCEPTION).bits(), outcome_part(o3), None, None)]
    } else {
        vec![mk_filter(d.bits(), outcome_part(o1), None, Some("a")), mk_filter(d.bits(), outcome_part(o2), None, None),
             mk_filter((d | NetworkFilterMask::IS_EXCEPTION).bits(), outcome_part(o3), None, Some("a"))]
    };
    for (i, r) in rules.iter_mut().enumerate() { r.id = (i + 1) as u64; }
    let mut bl = blocker_of(rules, false);
    if a_on { bl.use_tags(&["a"]); }
    let req = mk_request("https://x.com/page", "x.com", RequestType::Script, false, true, false, None);
    let res = bl.check_parameterised(&req, &ResourceStorage::default(), matched_rule, force);
    let imp = !tagged && o1;
    let blocking = if !tagged { imp || (!matched_rule && o2) } else { !matched_rule && ((o1 && a_on) || o2) };
    let exc_active = if !tagged { o3 } else { o3 && a_on };
    let exc_consulted = if imp { false } else if blocking { true } else { matched_rule || force };
    let exception = exc_consulted && exc_active;
    let want_matched = !exception && (blocking || matched_rule);
    let ok = res.matched == want_matched && res.important == imp && res.exception.is_some() == exception && res.filter.is_some() == blocking;
    json!({"reproduced": !ok, "got": {"matched": res.matched, "important": res.important, "exception": res.exception.is_some(), "filter": res.filter.is_some()},
           "want": {"matched": want_matched, "important": imp, "exception": exception, "filter": blocking}, "api": "Blocker::new + check_parameterised"})
}
/// wildcard pattern a*b: rule value with IS_REGEX and the real regex matcher; URL built from the counterexample
fn c01_star(v: &Value) -> Value {
    let a = sub(v, "ab", "al").to_ascii_lowercase();
    let bpart = sub(v, "bb", "bl").to_ascii_lowercase();
    let (la, ra) = (b(&v["la"]), b(&v["ra"]));
    let f = format!("{}*{}", a, bpart);
    let mut url = String::new();
    if b(&v["has_pre"]) { url.push(u(&v["pre"]) as u8 as char); }
    url.push_str(&a);
    if b(&v["has_mid"]) { url.push(u(&v["mid"]) as u8 as char); }
    url.push_str(&bpart);
    if b(&v["has_post"]) { url.push(u(&v["post"]) as u8 as char); }
    let url = url.to_ascii_lowercase();
    let mut mask = NetworkFilterMask::DEFAULT_OPTIONS | NetworkFilterMask::IS_REGEX;
    if la { mask |= NetworkFilterMask::IS_LEFT_ANCHOR; }
    if ra { mask |= NetworkFilterMask::IS_RIGHT_ANCHOR; }
    let nf = mk_filter(mask.bits(), FilterPart::Simple(f.clone()), None, None);
    let req = mk_request(&url, "x.com", RequestType::Script, false, true, false, None);
    let m = matches(&nf, &req);
    let rt: Vec<u64> = req.get_tokens().clone();
    let missing: Vec<u64> = nf.get_tokens().iter().flatten().filter(|t| !rt.contains(t)).cloned().collect();
    let engine = blocker_of(vec![nf], false).check(&req, &ResourceStorage::default()).matched;
    json!({"reproduced": m && !missing.is_empty(), "rule": format!("{}{}{}", if la {"|"} else {""}, f, if ra {"|"} else {""}), "url": url, "matcher_accepts": m, "rule_tokens_missing_from_request": missing.len(), "engine_matched": engine})
}
fn alnum(c: u8) -> bool {
    c.is_ascii_alphanumeric() || c == b'%'
}
fn c01_l1c(v: &Value) -> Value {
    let c = u(&v["c"]) as u8;
    let s: String = [c as char, c as char].iter().collect();
    let got = !adblock::utils::tokenize(&s).is_empty();
    json!({"reproduced": got != alnum(c), "byte": c, "tokenizer_treats_as_token_char": got})
}
/// bin_lookup is crate-private: lifted through an included-domain list and a one-hash source
fn c01_bin(v: &Value) -> Value {
    let a = u64s(&v["a"]);
    let n = (u(&v["n"]) as usize).min(a.len());
    let x = u(&v["x"]);
    if n == 0 {
        return json!({"reproduced": false, "note": "empty list is not expressible as a domain option"});
    }
    let mut nf = mk_filter(NetworkFilterMask::DEFAULT_OPTIONS.bits(), FilterPart::Empty, None, None);
    nf.opt_domains = Some(a[..n].to_vec());
    let req = mk_request("https://x.com/", "x.com", RequestType::Script, false, true, false, Some(vec![x]));
    let got = matches(&nf, &req);
    let want = a[..n].contains(&x);
    json!({"reproduced": got != want, "got": got, "want": want})
}
fn c01_flags(v: &Value) -> Value {
    let m = (u(&v["m"]) as u32) & !(u(&v["mask_clear"]) as u32);
    let nf = mk_filter(m, FilterPart::Simple("ab/cd/ef".into()), None, None);
    let g = nf.get_tokens();
    let mask = NetworkFilterMask::from_bits_retain(m);
    let ra = mask.contains(NetworkFilterMask::IS_RIGHT_ANCHOR);
    let (http, https) = (mask.contains(NetworkFilterMask::FROM_HTTP), mask.contains(NetworkFilterMask::FROM_HTTPS));
    let mut want: Vec<u64> = if ra { vec![fast_hash("cd"), fast_hash("ef")] } else { vec![fast_hash("ab"), fast_hash("cd")] };
    if http && !https {
        want.push(fast_hash("http"));
    }
    if https && !http {
        want.push(fast_hash("https"));
    }
    let ok = g.len() == 1 && g[0] == want;
    json!({"reproduced": !ok, "mask": m, "groups": g.len(), "descriptive": true})
}
fn c01_flags_host(v: &Value) -> Value {
    let m = (u(&v["m"]) as u32) & !(u(&v["mask_clear"]) as u32);
    let nf = mk_filter(m, FilterPart::Simple("ab/cd/ef".into()), Some("gh.ij".into()), None);
    let g = nf.get_tokens();
    let mask = NetworkFilterMask::from_bits_retain(m);
    let ra = mask.contains(NetworkFilterMask::IS_RIGHT_ANCHOR);
    let mut want: Vec<u64> = vec![];
    if !mask.contains(NetworkFilterMask::IS_COMPLETE_REGEX) {
        want.extend(if ra { [fast_hash("cd"), fast_hash("ef")] } else { [fast_hash("ab"), fast_hash("cd")] });
    }
    if !mask.contains(NetworkFilterMask::IS_HOSTNAME_REGEX) {
        want.extend([fast_hash("gh"), fast_hash("ij")]);
    }
    let (http, https) = (mask.contains(NetworkFilterMask::FROM_HTTP), mask.contains(NetworkFilterMask::FROM_HTTPS));
    if http && !https { want.push(fast_hash("http")); }
    if https && !http { want.push(fast_hash("https")); }
    let ok = g.len() == 1 && g[0] == want;
    json!({"reproduced": !ok, "mask": m, "tokens": g.first().map(|x| x.len()), "want": want.len()})
}
fn c01_host_tokens(v: &Value) -> Value {
    let fh = sub(v, "fb", "fl");
    let h = sub(v, "hb", "hl");
    let url = format!("https://{}{}", h, if b(&v["has_t"]) { ((u(&v["t"]) as u8) as char).to_string() } else { String::new() });
    let mask = NetworkFilterMask::DEFAULT_OPTIONS | NetworkFilterMask::IS_HOSTNAME_ANCHOR;
    let nf = mk_filter(mask.bits(), FilterPart::Empty, Some(fh.clone()), None);
    let req = mk_request(&url, &h, RequestType::Script, false, true, false, None);
    let m = matches(&nf, &req);
    let rt: Vec<u64> = req.get_tokens().clone();
    let missing: Vec<u64> = nf.get_tokens().iter().flatten().filter(|t| !rt.contains(t)).cloned().collect();
    let engine = blocker_of(vec![nf], false).check(&req, &ResourceStorage::default()).matched;
    json!({"reproduced": m && !missing.is_empty(), "filter_host": fh, "url": url, "matcher_accepts": m, "tokens_missing": missing.len(), "engine_matched": engine})
}
fn c01_dom(v: &Value) -> Value {
    let m = (u(&v["m"]) as u32) & !(u(&v["mask_clear"]) as u32);
    let d = u(&v["d"]);
    let s = u64s(&v["s"]);
    let ns = (u(&v["ns"]) as usize).min(s.len());
    let has_src = b(&v["has_src"]);
    let mut nf = mk_filter(m, FilterPart::Empty, None, None);
    nf.opt_domains = Some(vec![d]);
    nf.opt_domains_union = Some(d);
    let src = if has_src { Some(s[..ns].to_vec()) } else { None };
    let req = mk_request("https://x.com/", "x.com", RequestType::Script, b(&v["http"]), b(&v["https"]), b(&v["tp"]), src.clone());
    let m_ok = matches(&nf, &req);
    let g = nf.get_tokens();
    let filed_under_d = g.len() == 1 && g[0].first() == Some(&d);
    let probed = src.map(|s| s.contains(&d)).unwrap_or(false);
    let engine = blocker_of(vec![nf], false).check(&req, &ResourceStorage::default());
    json!({"reproduced": !filed_under_d || (m_ok && !probed), "matcher_accepts": m_ok, "filed_under_domain": filed_under_d, "domain_hash_probed": probed,
           "engine_matched": engine.matched || engine.exception.is_some()})
}
fn c01_scheme(v: &Value) -> Value {
    let m = (u(&v["m"]) as u32) & !(u(&v["mask_clear"]) as u32);
    let sc = u(&v["sc"]);
    let mask = NetworkFilterMask::from_bits_retain(m);
    let nf = mk_filter(m, FilterPart::Empty, None, None);
    let (url, rt) = match sc {
        0 => ("http://x.com/", RequestType::Script),
        1 => ("https://x.com/", RequestType::Script),
        _ => ("ws://x.com/", RequestType::Websocket),
    };
    let req = mk_request(url, "x.com", rt, sc == 0, sc == 1, b(&v["tp"]), None);
    let ok = matches(&nf, &req);
    let http_only = mask.contains(NetworkFilterMask::FROM_HTTP) && !mask.contains(NetworkFilterMask::FROM_HTTPS);
    let https_only = mask.contains(NetworkFilterMask::FROM_HTTPS) && !mask.contains(NetworkFilterMask::FROM_HTTP);
    let bad = ok && ((http_only && sc != 0) || (https_only && sc != 1));
    // the scheme token the rule is filed under vs the tokens of the request URL
    let g = nf.get_tokens();
    let tok = if http_only { Some(fast_hash("http")) } else if https_only { Some(fast_hash("https")) } else { None };
    let filed = tok.map(|t| g.iter().flatten().any(|x| *x == t)).unwrap_or(false);
    let probed = tok.map(|t| req.get_tokens().contains(&t)).unwrap_or(true);
    json!({"reproduced": bad && filed && !probed, "matcher_accepts": ok, "rule_has_scheme_token": filed, "request_probes_it": probed, "url": url,
           "example": "rule '|http://' vs a ws:// request: matcher accepts, engine files the rule under token 'http'"})
}

// ------------------------------------------------------------------------------------------------- C02
fn eq_at(h: &[u8], p: usize, n: &[u8]) -> bool {
    p + n.len() <= h.len() && &h[p..p + n.len()] == n
}
fn ref_anchored(fh: &[u8], h: &[u8], wildcard: bool) -> bool {
    if fh.is_empty() {
        return true;
    }
    if fh.len() > h.len() {
        return false;
    }
    (0..=h.len() - fh.len()).any(|p| {
        eq_at(h, p, fh) && {
            let e = p + fh.len();
            (p == 0 || fh[0] == b'.' || h[p - 1] == b'.') && (e == h.len() || wildcard || fh[fh.len() - 1] == b'.' || h[e] == b'.')
        }
    })
}
/// is_anchored_by_hostname is private: a host-anchored rule value with an empty pattern matches iff anchored
fn c02_anchor(v: &Value) -> Value {
    let fh = sub(v, "fb", "fl");
    let h = sub(v, "hb", "hl");
    let w = b(&v["w"]);
    let mut mask = NetworkFilterMask::DEFAULT_OPTIONS | NetworkFilterMask::IS_HOSTNAME_ANCHOR;
    if w {
        mask |= NetworkFilterMask::IS_HOSTNAME_REGEX;
    }
    let nf = mk_filter(mask.bits(), FilterPart::Empty, Some(fh.clone()), None);
    let url = format!("https://{}/", h);
    let req = mk_request(&url, &h, RequestType::Script, false, true, false, None);
    let got = matches(&nf, &req);
    let want = ref_anchored(fh.as_bytes(), h.as_bytes(), w);
    // lift through rule text when the host text is a plain hostname
    let lift = if !w && !fh.is_empty() {
        let line = format!("||{}", fh);
        NetworkFilter::parse(&line, false, Default::default()).ok().and_then(|p| Request::new(&url, "", "script").ok().map(|r| json!({"rule": line, "matcher": matches(&p, &r)})))
    } else {
        None
    };
    json!({"reproduced": got != want, "got": got, "want": want, "filter_host": fh, "host": h, "wildcard": w, "lift": lift})
}
fn c02_plain(v: &Value) -> Value {
    let f = sub(v, "fb", "fl");
    let url = sub(v, "ub", "ul");
    let (la, ra, mc) = (b(&v["la"]), b(&v["ra"]), b(&v["mc"]));
    let mut mask = NetworkFilterMask::DEFAULT_OPTIONS;
    if la {
        mask |= NetworkFilterMask::IS_LEFT_ANCHOR;
    }
    if ra {
        mask |= NetworkFilterMask::IS_RIGHT_ANCHOR;
    }
    if mc {
        mask |= NetworkFilterMask::MATCH_CASE;
    }
    let nf = mk_filter(mask.bits(), FilterPart::Simple(f.clone()), None, None);
    let req = mk_request(&url, "", RequestType::Script, false, true, false, None);
    let got = matches(&nf, &req);
    let hay = if mc { url.clone() } else { url.to_ascii_lowercase() };
    let (hb, fb) = (hay.as_bytes(), f.as_bytes());
    let want = if la && ra { hb == fb } else if la { hb.starts_with(fb) } else if ra { hb.ends_with(fb) } else { (0..=hb.len()).any(|p| eq_at(hb, p, fb)) };
    json!({"reproduced": got != want, "got": got, "want": want, "pattern": f, "url": url})
}
fn c02_host(v: &Value) -> Value {
    let fh = sub(v, "hb", "hl");
    let rh = sub(v, "rb", "rl");
    let f = sub(v, "fb", "fl");
    let tail = sub(v, "tb", "tl");
    let (la, ra) = (b(&v["la"]), b(&v["ra"]));
    let unanchored = b(&v["unanchored"]);
    let url = format!("s://{}{}", rh, tail);
    let mut mask = NetworkFilterMask::DEFAULT_OPTIONS | NetworkFilterMask::IS_HOSTNAME_ANCHOR;
    if la {
        mask |= NetworkFilterMask::IS_LEFT_ANCHOR;
    }
    if ra {
        mask |= NetworkFilterMask::IS_RIGHT_ANCHOR;
    }
    if unanchored {
        mask |= NetworkFilterMask::IS_HOSTNAME_REGEX;
    }
    let nf = mk_filter(mask.bits(), FilterPart::Simple(f.clone()), Some(fh.clone()), None);
    let req = mk_request(&url, &rh, RequestType::Script, false, true, false, None);
    let got = matches(&nf, &req);
    let (fhb, rhb, fb, ub) = (fh.as_bytes(), rh.as_bytes(), f.as_bytes(), url.as_bytes());
    let mut want = false;
    if !fhb.is_empty() && fhb.len() <= rhb.len() {
        for p in 0..=rhb.len() - fhb.len() {
            if eq_at(rhb, p, fhb) {
                let e = p + fhb.len();
                let left = p == 0 || fhb[0] == b'.' || rhb[p - 1] == b'.';
                if unanchored {
                    if left && (4 + e..=ub.len()).any(|k| eq_at(ub, k, fb)) {
                        want = true;
                    }
                } else if left && (e == rhb.len() || fhb[fhb.len() - 1] == b'.' || rhb[e] == b'.') {
                    let start = 4 + e;
                    if eq_at(ub, start, fb) && (!ra || start + fb.len() == ub.len()) {
                        want = true;
                    }
                }
            }
        }
    }
    // the same through a realistic scheme and rule text
    let url2 = format!("https://{}{}", rh, tail);
    let line = if unanchored { format!("||{}*{}", fh, f) } else { format!("||{}{}{}", fh, f, if ra { "|" } else { "" }) };
    let lift = NetworkFilter::parse(&line, false, Default::default()).ok().and_then(|p| Request::new(&url2, "", "script").ok().map(|r| json!({"rule": line, "url": url2, "matcher": matches(&p, &r)})));
    json!({"reproduced": got != want, "got": got, "want": want, "filter_host": fh, "remainder": f, "url": url, "lift": lift})
}

// ------------------------------------------------------------------------------------------------- C03
fn type_bit(t: u64) -> (RequestType, NetworkFilterMask) {
    use NetworkFilterMask as M;
    use RequestType as R;
    match t {
        0 => (R::Beacon, M::FROM_PING),
        1 => (R::Csp, M::UNMATCHED),
        2 => (R::Document, M::FROM_DOCUMENT),
        3 => (R::Dtd, M::FROM_OTHER),
        4 => (R::Fetch, M::FROM_OTHER),
        5 => (R::Font, M::FROM_FONT),
        6 => (R::Image, M::FROM_IMAGE),
        7 => (R::Media, M::FROM_MEDIA),
        8 => (R::Object, M::FROM_OBJECT),
        9 => (R::Other, M::FROM_OTHER),
        10 => (R::Ping, M::FROM_PING),
        11 => (R::Script, M::FROM_SCRIPT),
        12 => (R::Stylesheet, M::FROM_STYLESHEET),
        13 => (R::Subdocument, M::FROM_SUBDOCUMENT),
        14 => (R::Websocket, M::FROM_WEBSOCKET),
        15 => (R::Xlst, M::FROM_OTHER),
        _ => (R::Xmlhttprequest, M::FROM_XMLHTTPREQUEST),
    }
}
fn c03_opts(v: &Value) -> Value {
    let m = u(&v["m"]) as u32;
    let mask = NetworkFilterMask::from_bits_retain(m);
    let (rt, bit) = type_bit(u(&v["t"]));
    let t = u(&v["t"]);
    let take = |name: &str, n: &str| -> Vec<u64> {
        let a = u64s(&v[name]);
        let k = (u(&v[n]) as usize).min(a.len());
        a[..k].to_vec()
    };
    let (inc, exc, src) = (take("inc", "ni"), take("exc", "ne"), take("src", "ns"));
    let has_src = b(&v["has_src"]);
    let (http, https, tp) = (b(&v["http"]), b(&v["https"]), b(&v["tp"]));
    // strip pattern-kind bits the kernel's check_options call never looked at, so that the pattern side accepts
    let kind = NetworkFilterMask::IS_REGEX | NetworkFilterMask::IS_HOSTNAME_ANCHOR | NetworkFilterMask::IS_COMPLETE_REGEX | NetworkFilterMask::IS_HOSTNAME_REGEX;
    let mut nf = mk_filter((mask & !kind).bits(), FilterPart::Empty, None, None);
    if !inc.is_empty() {
        nf.opt_domains_union = if b(&v["has_iu"]) { Some(inc.iter().fold(0, |a, x| a | x)) } else { None };
        nf.opt_domains = Some(inc.clone());
    }
    if !exc.is_empty() {
        nf.opt_not_domains_union = if b(&v["has_eu"]) { Some(exc.iter().fold(0, |a, x| a | x)) } else { None };
        nf.opt_not_domains = Some(exc.clone());
    }
    let req = mk_request("https://x.com/", "x.com", rt, http, https, tp, if has_src { Some(src.clone()) } else { None });
    let got = matches(&nf, &req);
    let bad = mask.contains(NetworkFilterMask::BAD_FILTER);
    let type_ok = if t == 2 { mask.contains(NetworkFilterMask::FROM_DOCUMENT) || mask.contains(NetworkFilterMask::IS_EXCEPTION) } else { mask.contains(bit) };
    let scheme_ok = (!https || mask.contains(NetworkFilterMask::FROM_HTTPS)) && (!http || mask.contains(NetworkFilterMask::FROM_HTTP));
    let party_ok = if tp { mask.contains(NetworkFilterMask::THIRD_PARTY) } else { mask.contains(NetworkFilterMask::FIRST_PARTY) };
    let src_in = |l: &Vec<u64>| has_src && src.iter().any(|s| l.contains(s));
    let want = !bad && type_ok && scheme_ok && party_ok && (inc.is_empty() || src_in(&inc)) && (exc.is_empty() || !src_in(&exc));
    json!({"reproduced": got != want, "got": got, "want": want, "mask": m, "request_type": t, "include": inc, "exclude": exc, "source": if has_src { Some(src) } else { None }})
}

// ------------------------------------------------------------------------------------------------- C04
fn c04_id(v: &Value, check: &str) -> Value {
    let bad = NetworkFilterMask::BAD_FILTER;
    let my = NetworkFilterMask::from_bits_retain(u(&v["my"]) as u32) & !bad;
    let (fy, hy, fz, hz) = (sub(v, "a", "al"), sub(v, "b", "bl"), sub(v, "c", "cl"), sub(v, "d", "dl"));
    let (has_hy, has_hz, has_dy, has_dz) = (b(&v["has_hy"]), b(&v["has_hz"]), b(&v["has_dy"]), b(&v["has_dz"]));
    let (dy, dz) = (u(&v["dy"]), u(&v["dz"]));
    let mut y = mk_filter(my.bits(), FilterPart::Simple(fy.clone()), if has_hy { Some(hy.clone()) } else { None }, None);
    let mut z = mk_filter((my | bad).bits(), FilterPart::Simple(fz.clone()), if has_hz { Some(hz.clone()) } else { None }, None);
    if has_dy {
        y.opt_domains = Some(vec![dy]);
    }
    if has_dz {
        z.opt_domains = Some(vec![dz]);
    }
    let (has_ny, has_nz, ny, nz) = (b(&v["has_ny"]), b(&v["has_nz"]), u(&v["ny"]), u(&v["nz"]));
    if has_ny {
        y.opt_not_domains = Some(vec![ny]);
    }
    if has_nz {
        z.opt_not_domains = Some(vec![nz]);
    }
    let same = fy == fz && has_hy == has_hz && (!has_hy || hy == hz) && has_dy == has_dz && (!has_dy || dy == dz) && has_ny == has_nz && (!has_ny || ny == nz);
    let ids_eq = z.get_id_without_badfilter() == y.get_id();
    let repro = if check.contains("same_rule_is_cancelled") {
        same && !ids_eq
    } else if check.contains("equal_ids_imply_same_rule") {
        ids_eq && !same
    } else if check.contains("mask_is_part_of_id") {
        let my2 = NetworkFilterMask::from_bits_retain(u(&v["my2"]) as u32) & !bad;
        let y2 = mk_filter(my2.bits(), FilterPart::Simple(fy.clone()), if has_hy { Some(hy.clone()) } else { None }, None);
        my2 != my && !has_dy && y2.get_id() == y.get_id()
    } else {
        (same && !ids_eq) || (ids_eq && !same)
    };
    // engine level: does adding z (a $badfilter) remove y from a Blocker?
    y.id = y.get_id();
    z.id = z.get_id();
    let cancelled = {
        let bl = blocker_of(vec![y.clone(), z.clone()], false);
        !bl.filter_exists(&y)
    };
    json!({"reproduced": repro, "same_rule": same, "ids_equal": ids_eq, "y": {"filter": fy, "hostname": if has_hy {Some(hy)} else {None}}, "z": {"filter": fz, "hostname": if has_hz {Some(hz)} else {None}},
           "blocker_drops_y_when_z_badfilter_is_added": cancelled})
}

// ------------------------------------------------------------------------------------------------- C05
/// select/fusion are private: lifted through Blocker::new with optimisation on vs off on the two rule values
fn c05_fuse(v: &Value) -> Value {
    let m = (u(&v["m"]) as u32) & !(u(&v["mask_clear"]) as u32);
    let p1 = sub(v, "b1", "l1");
    let p2 = sub(v, "b2", "l2");
    let url = sub(v, "ub", "ul");
    let mkf = |p: &str, empty: bool, tag: bool| mk_filter(m, if empty { FilterPart::Empty } else { FilterPart::Simple(p.to_string()) }, None, if tag { Some("a") } else { None });
    let mut f1 = mkf(&p1, b(&v["force_e1"]), b(&v["t1"]));
    if b(&v["anyof1"]) && p1.len() == 2 {
        f1.filter = FilterPart::AnyOf(vec![p1[0..1].to_string(), p1[1..2].to_string()]);
    }
    let mut f2 = mkf(&p2, b(&v["force_e2"]), b(&v["t2"]));
    if f2.id == f1.id {
        f2.id = f1.id.wrapping_add(1);
    }
    let rt = if b(&v["rt_script"]) { RequestType::Script } else { RequestType::Document };
    let req = mk_request(&url, "", rt, false, true, b(&v["tp"]), None);
    // Blocker-level observation: category-routing bits (generichide, badfilter, ...) would send the two rules to
    // lists a network query never shows, and an exception only shows next to a matching blocking rule. The
    // fusion step does not depend on those bits, so the replay runs the counterexample's mask first and then the
    // same rules with the routing bits cleared, each time next to a catch-all blocking rule.
    let routing = NetworkFilterMask::GENERIC_HIDE | NetworkFilterMask::BAD_FILTER | NetworkFilterMask::ALSO_BLOCK_REDIRECT | NetworkFilterMask::UNMATCHED
        | NetworkFilterMask::IS_REMOVEPARAM | NetworkFilterMask::IS_REDIRECT | NetworkFilterMask::IS_CSP;
    let mut outcomes = vec![];
    let mut reproduced = false;
    for clear in [false, true] {
        let adj = |f: &NetworkFilter| {
            let mut g = f.clone();
            if clear {
                g.mask &= !routing;
            }
            g
        };
        let (g1, g2) = (adj(&f1), adj(&f2));
        let mut catch_all = mk_filter((NetworkFilterMask::DEFAULT_OPTIONS | NetworkFilterMask::FROM_DOCUMENT).bits(), FilterPart::Empty, None, None);
        catch_all.id = 424242;
        let run = |opt: bool| {
            let mut bl = blocker_of(vec![g1.clone(), g2.clone(), catch_all.clone()], opt);
            if b(&v["tag_on"]) {
                bl.use_tags(&["a"]);
            }
            let r = bl.check(&req, &ResourceStorage::default());
            let csp = bl.get_csp_directives(&req);
            (r.matched, r.important, r.exception.is_some(), r.redirect, r.rewritten_url, csp)
        };
        let (a, o) = (run(false), run(true));
        if a != o {
            reproduced = true;
        }
        outcomes.push(json!({"routing_bits_cleared": clear, "mask": g1.mask.bits(), "unoptimised": format!("{:?}", a), "optimised": format!("{:?}", o)}));
    }
    json!({"reproduced": reproduced, "outcomes": outcomes, "patterns": [p1, p2], "empty": [b(&v["force_e1"]), b(&v["force_e2"])], "url": url})
}

/// select is private: a Blocker with optimisation on must answer like one with optimisation off for the rule
/// value together with a fusable twin
fn c05_select(v: &Value) -> Value {
    let m = u(&v["m"]) as u32;
    let routing = NetworkFilterMask::GENERIC_HIDE | NetworkFilterMask::BAD_FILTER | NetworkFilterMask::ALSO_BLOCK_REDIRECT | NetworkFilterMask::UNMATCHED
        | NetworkFilterMask::IS_REMOVEPARAM | NetworkFilterMask::IS_REDIRECT | NetworkFilterMask::IS_CSP | NetworkFilterMask::IS_HOSTNAME_ANCHOR
        | NetworkFilterMask::IS_REGEX | NetworkFilterMask::IS_COMPLETE_REGEX | NetworkFilterMask::IS_HOSTNAME_REGEX
        | NetworkFilterMask::IS_LEFT_ANCHOR | NetworkFilterMask::IS_RIGHT_ANCHOR | NetworkFilterMask::MATCH_CASE;
    let r = catch_unwind(AssertUnwindSafe(|| {
        let mut diffs = 0;
        for clear in [false, true] {
            // the eligibility decision does not depend on the routing / pattern-kind bits; with them cleared the two
            // rules land in lists a network query shows (next to a catch-all blocking rule for exception masks)
            let mask = if clear { (NetworkFilterMask::from_bits_retain(m) & !routing).bits() } else { m };
            let mut f = mk_filter(mask, FilterPart::Simple("ads/a".into()), None, if b(&v["has_tag"]) { Some("a") } else { None });
            // two listed domains and a shared pattern token ("ads"): a single included domain, or a pattern without tokens,
            // would file the two rules under different bucket keys and they would never meet in the optimiser
            if b(&v["has_d"]) {
                f.opt_domains = Some(vec![7, 8]);
            }
            if b(&v["has_n"]) {
                f.opt_not_domains = Some(vec![9]);
            }
            f.id = 1;
            let mut twin = mk_filter(mask, FilterPart::Simple("ads/b".into()), None, None);
            twin.id = 2;
            let mut catch_all = mk_filter((NetworkFilterMask::DEFAULT_OPTIONS | NetworkFilterMask::FROM_DOCUMENT).bits(), FilterPart::Empty, None, None);
            catch_all.id = 424242;
            for (url, src, tags) in [("https://x.com/ads/a", None, false), ("https://x.com/ads/b", None, false), ("https://x.com/ads/a", Some(vec![7u64]), true), ("https://x.com/ads/b", Some(vec![7u64]), true),
                                     ("https://x.com/ads/a", Some(vec![9u64]), true), ("https://x.com/ads/b", Some(vec![9u64]), true), ("https://x.com/ads/b", Some(vec![5u64]), false)] {
                for rt in [RequestType::Script, RequestType::Document, RequestType::Image] {
                    for tp in [false, true] {
                        let req = mk_request(url, "x.com", rt.clone(), false, true, tp, src.clone());
                        let run = |opt: bool| {
                            let mut bl = blocker_of(vec![f.clone(), twin.clone(), catch_all.clone()], opt);
                            if tags {
                                bl.use_tags(&["a"]);
                            }
                            let r = bl.check(&req, &ResourceStorage::default());
                            (r.matched, r.important, r.exception.is_some(), r.redirect, bl.get_csp_directives(&req))
                        };
                        if run(false) != run(true) {
                            diffs += 1;
                        }
                    }
                }
            }
        }
        diffs
    }));
    match r {
        Ok(d) => json!({"reproduced": d > 0, "differing_queries": d, "mask": m}),
        Err(e) => json!({"reproduced": true, "panic": panic_msg(e), "mask": m}),
    }
}

// ------------------------------------------------------------------------------------------------- C08
/// the wire structs are private: the failing field is exercised through Engine::serialize_raw -> deserialize with a
/// rule text that depends on that field, comparing query answers before and after.
fn c08_rule(_v: &Value, check: &str) -> Value {
    let battery: Vec<(&str, &str, &str, &str, Vec<&str>)> = vec![
        // (field, rule, url, source, tags)
        ("modifier_option", "*$removeparam=utm", "https://x.com/p?utm=1&a=2", "https://x.com/", vec![]),
        ("modifier_option_of_redirect", "||x.com/ad.js$redirect=noopjs,script", "https://x.com/ad.js", "https://y.com/", vec![]),
        ("modifier_option_of_redirect", "||x.com^$csp=script-src 'none'", "https://x.com/", "https://x.com/", vec![]),
        ("hostname", "||x.com/ad", "https://x.com/ad", "https://y.com/", vec![]),
        ("hostname", "||x.com/ad", "https://z.com/ad", "https://y.com/", vec![]),
        ("tag", "adv$tag=t", "https://x.com/adv", "https://y.com/", vec![]),
        ("tag", "adv$tag=t", "https://x.com/adv", "https://y.com/", vec!["t"]),
        ("domain", "adv$domain=y.com", "https://x.com/adv", "https://y.com/", vec![]),
        ("domain", "adv$domain=y.com", "https://x.com/adv", "https://z.com/", vec![]),
        ("domain", "adv$domain=~y.com", "https://x.com/adv", "https://y.com/", vec![]),
        ("domain", "adv$domain=~y.com", "https://x.com/adv", "https://z.com/", vec![]),
        ("domain", "adv$domain=y.com|~sub.y.com", "https://x.com/adv", "https://sub.y.com/", vec![]),
        ("domain", "adv$domain=y.com|~sub.y.com", "https://x.com/adv", "https://y.com/", vec![]),
        ("domain", "adv$domain=y.com|~sub.y.com", "https://x.com/adv", "https://a.sub.y.com/", vec![]),
        ("domain", "adv$domain=y.com|z.com|~sub.y.com|~w.z.com", "https://x.com/adv", "https://w.z.com/", vec![]),
        ("mask", "adv$script,third-party", "https://x.com/adv", "https://y.com/", vec![]),
        ("mask", "@@adv$script", "https://x.com/adv", "https://y.com/", vec![]),
        ("mask", "adv$important", "https://x.com/adv", "https://y.com/", vec![]),
        ("pattern", "/adv/banner", "https://x.com/adv/banner", "https://y.com/", vec![]),
        ("pattern", "/adv/banner", "https://x.com/adv/other", "https://y.com/", vec![]),
        ("id", "adv", "https://x.com/adv", "https://y.com/", vec![]),
        ("raw_line", "adv", "https://x.com/adv", "https://y.com/", vec![]),
    ];
    let mut diffs = vec![];
    let mut ran = 0;
    for (field, rule, url, src, tags) in battery {
        let relevant = check.contains(field) || (field == "modifier_option_of_redirect" && check.contains("modifier_option")) || (field == "domain" && check.contains("domain"));
        if !relevant {
            continue;
        }
        ran += 1;
        let rules: Vec<String> = vec![rule.to_string(), "@@never-matches-anything-xyz".to_string()];
        let mut e = Engine::from_rules_debug(rules.clone(), Default::default());
        e.use_tags(&tags);
        e.use_resources([noop_resource()]);
        let ser = match e.serialize_raw() {
            Ok(s) => s,
            Err(_) => continue,
        };
        let mut e2 = Engine::default();
        e2.use_tags(&tags);
        e2.use_resources([noop_resource()]);
        if e2.deserialize(&ser).is_err() {
            diffs.push(json!({"rule": rule, "error": "deserialize failed"}));
            continue;
        }
        for ty in ["script", "document", "xmlhttprequest", "image", "sub_frame"] {
            let req = Request::new(url, src, ty).unwrap();
            let (a, bb) = (e.check_network_request(&req), e2.check_network_request(&req));
            let (ca, cb) = (e.get_csp_directives(&req), e2.get_csp_directives(&req));
            let fa = (a.matched, a.important, a.exception.is_some(), a.redirect.clone(), a.rewritten_url.clone(), a.filter.clone(), ca);
            let fb = (bb.matched, bb.important, bb.exception.is_some(), bb.redirect.clone(), bb.rewritten_url.clone(), bb.filter.clone(), cb);
            if fa != fb {
                diffs.push(json!({"rule": rule, "url": url, "type": ty, "tags": tags, "before": format!("{:?}", fa), "after": format!("{:?}", fb)}));
            }
        }
    }
    json!({"reproduced": !diffs.is_empty(), "battery_entries_run": ran, "differences": diffs, "api": "Engine::serialize_raw -> Engine::deserialize -> check_network_request / get_csp_directives"})
}

fn noop_resource() -> adblock::resources::Resource {
    adblock::resources::Resource {
        name: "noopjs".into(),
        aliases: vec![],
        kind: adblock::resources::ResourceType::Mime(adblock::resources::MimeType::ApplicationJavascript),
        content: "KCgpID0+IHt9KSgp".into(), // base64 of "(() => {})()"
        dependencies: vec![],
        permission: Default::default(),
    }
}

// ------------------------------------------------------------------------------------------------- C11
fn c11_split(v: &Value) -> Value {
    let mut s = String::new();
    if b(&v["a"]) {
        s.push(u(&v["x"]) as u8 as char);
    }
    if b(&v["c"]) {
        match char::from_u32(u(&v["ch"]) as u32) {
            Some(c) => s.push(c),
            None => return json!({"reproduced": false, "error": "decoded value is not a Unicode scalar"}),
        }
    }
    if b(&v["b"]) {
        s.push(u(&v["y"]) as u8 as char);
    }
    let line = s.clone();
    let r = catch_unwind(AssertUnwindSafe(|| {
        let a = NetworkFilter::parse(&line, true, Default::default()).is_ok();
        let bb = adblock::lists::parse_filter(&line, true, Default::default()).is_ok();
        (a, bb)
    }));
    match r {
        Ok(x) => json!({"reproduced": false, "line": s, "parsed": format!("{:?}", x)}),
        Err(e) => json!({"reproduced": true, "line": s, "panic": panic_msg(e), "api": "NetworkFilter::parse / lists::parse_filter"}),
    }
}

// ------------------------------------------------------------------------------------------------- C12
fn c12_scheme(v: &Value) -> Value {
    let s = sub(v, "sb", "sl");
    let raw = match u(&v["ty"]) % 3 {
        0 => "image",
        1 => "script",
        _ => "websocket",
    };
    // the private constructor receives url[..first ':'] from Request::preparsed
    let url = if s.is_empty() { "x".to_string() } else { format!("{}:x", s) };
    let r = Request::preparsed(&url, "", "", raw, false);
    let (h, hs, w, ws) = (s == "http", s == "https", s == "ws", s == "wss");
    let ok = r.is_http == h && r.is_https == (hs || s.is_empty()) && r.is_supported == (s.is_empty() || h || hs || w || ws)
        && (r.request_type == RequestType::Websocket) == (w || ws || raw == "websocket") && !(r.is_http && r.is_https);
    json!({"reproduced": !ok, "scheme": s, "type": raw, "is_http": r.is_http, "is_https": r.is_https, "is_supported": r.is_supported, "request_type": format!("{:?}", r.request_type)})
}
fn c12_presplit(v: &Value) -> Value {
    let url = sub(v, "ub", "ul");
    let r = Request::preparsed(&url, "", "", "image", false);
    let scheme = url.split(':').next().filter(|_| url.contains(':')).unwrap_or("");
    let (h, hs, w, ws) = (scheme == "http", scheme == "https", scheme == "ws", scheme == "wss");
    let ok = r.is_supported == (scheme.is_empty() || h || hs || w || ws) && (r.request_type == RequestType::Websocket) == (w || ws);
    json!({"reproduced": !ok, "url": url, "scheme": scheme, "is_supported": r.is_supported, "request_type": format!("{:?}", r.request_type)})
}
fn c12_presplit_long(v: &Value) -> Value {
    let (p, l) = (u(&v["p"]) as usize, (u(&v["l"]) as usize).min(12));
    let mut url: Vec<u8> = vec![b'g'; l];
    if p < l {
        url[p] = b':';
    }
    let url = String::from_utf8(url).unwrap();
    let r = Request::preparsed(&url, "", "", "image", false);
    let want = p >= l || p == 0;
    json!({"reproduced": r.is_supported != want, "url": url, "is_supported": r.is_supported, "want": want})
}
fn c12_types(v: &Value) -> Value {
    const T: [(&str, &str); 25] = [
        ("beacon", "Ping"), ("csp_report", "Csp"), ("document", "Document"), ("main_frame", "Document"), ("font", "Font"), ("image", "Image"), ("imageset", "Image"),
        ("media", "Media"), ("object", "Object"), ("object_subrequest", "Object"), ("ping", "Ping"), ("script", "Script"), ("stylesheet", "Stylesheet"), ("sub_frame", "Subdocument"),
        ("subdocument", "Subdocument"), ("websocket", "Websocket"), ("xhr", "Xmlhttprequest"), ("xmlhttprequest", "Xmlhttprequest"), ("other", "Other"), ("speculative", "Other"), ("xslt", "Other"),
        ("web_manifest", "Other"), ("xbl", "Other"), ("xml_dtd", "Other"), ("no-such-type", "Other"),
    ];
    let i = (u(&v["i"]) as usize).min(24);
    let r = Request::preparsed("https://a/", "a", "", T[i].0, false);
    let got = format!("{:?}", r.request_type);
    json!({"reproduced": got != T[i].1, "spelling": T[i].0, "got": got, "want": T[i].1})
}
fn c12_srchash(v: &Value) -> Value {
    let h = sub(v, "hb", "hl");
    let r = Request::preparsed("a:", "", &h, "image", false);
    let want: Option<Vec<u64>> = if h.is_empty() {
        None
    } else {
        let mut w = vec![fast_hash(&h)];
        for (i, c) in h.char_indices() {
            if c == '.' && i + 1 < h.len() {
                w.push(fast_hash(&h[i + 1..]));
            }
        }
        Some(w)
    };
    json!({"reproduced": r.source_hostname_hashes != want, "host": h, "got_len": r.source_hostname_hashes.as_ref().map(|x| x.len()), "want_len": want.as_ref().map(|x| x.len())})
}

// ------------------------------------------------------------------------------------------------- C16
/// The label-hash functions are crate-private and take the registrable-domain split from the resolver. Lift:
/// one hide rule per label suffix of the host (and per entity form), queried through
/// Engine::url_cosmetic_resources — possible only when the real public-suffix resolver yields the split the
/// counterexample uses.
fn c16_labels(v: &Value, entity: bool) -> Value {
    let h = sub(v, "hb", "hl");
    let ds = u(&v["ds"]) as usize;
    // 1. the counterexample's own host, if the real resolver splits it the same way
    let own = c16_host(&h, Some(ds), entity);
    if own["reproduced"].as_bool() == Some(true) {
        return own;
    }
    // 2. the kernel-level defect is lifted through hosts the real resolver can split: the same statement
    //    (keys == label suffixes down to the registrable domain / entity forms) on a battery of real hosts
    let mut tried = vec![own];
    for host in ["example.com", "a.example.com", "a.b.example.com", "x.y.z.example.org", "sub.example.co.uk", "a.b.example.co.uk", "ab.cd", "a.b.c.d.example.net"] {
        let r = c16_host(host, None, entity);
        if r["reproduced"].as_bool() == Some(true) {
            return json!({"reproduced": true, "lifted_to_real_host": host, "detail": r, "counterexample_host": h, "counterexample_split": ds});
        }
        tried.push(r);
    }
    json!({"reproduced": false, "note": "neither the counterexample host nor the battery of real hosts shows the defect through Engine::url_cosmetic_resources", "tried": tried.len()})
}
fn c16_host(h: &str, ds: Option<usize>, entity: bool) -> Value {
    let hostc = |c: u8| c.is_ascii_lowercase() || c.is_ascii_digit() || c == b'.' || c == b'-';
    if h.is_empty() || !h.bytes().all(hostc) || h.contains("..") || h.starts_with('.') || h.ends_with('.') || h.starts_with('-') {
        return json!({"reproduced": false, "unliftable": true, "note": "host is not a valid hostname; cannot be queried through a URL", "host": h});
    }
    let url = format!("https://{}/", h);
    let parsed = match adblock::url_parser::parse_url(&url) {
        Some(p) => p,
        None => return json!({"reproduced": false, "unliftable": true, "note": "URL does not parse", "host": h}),
    };
    if parsed.hostname() != h {
        return json!({"reproduced": false, "unliftable": true, "note": "host is normalised differently", "host": h});
    }
    let real_ds = parsed.hostname().len() - parsed.domain().len();
    if let Some(ds) = ds {
        if real_ds != ds {
            return json!({"reproduced": false, "unliftable": true, "note": "the real public-suffix resolver splits this host differently from the counterexample", "host": h, "cex_split": ds, "real_split": real_ds});
        }
    }
    let ds = real_ds;
    let hb = h.as_bytes();
    let mut rules = vec![];
    let mut expected = vec![];
    let domain = &h[ds..];
    let fd = domain.find('.').map(|i| ds + i);
    for p in 0..h.len() {
        if p == 0 || hb[p - 1] == b'.' {
            if !entity {
                let sel = format!(".k{}", p);
                rules.push(format!("{}##{}", &h[p..], sel));
                // hostname keys: suffixes down to the registrable domain; the lookup set also holds the entity keys,
                // one of which is the hash of the public suffix itself
                if p <= ds || Some(p) == fd.map(|f| f + 1) {
                    expected.push(sel);
                }
            } else if let Some(fd) = fd {
                if p < fd {
                    let sel = format!(".e{}", p);
                    rules.push(format!("{}.*##{}", &h[p..fd], sel));
                    expected.push(sel);
                }
            }
        }
    }
    if rules.is_empty() {
        return json!({"reproduced": false, "note": "no rule to test for this host", "host": h});
    }
    let e = Engine::from_rules(rules.clone(), Default::default());
    let res = e.url_cosmetic_resources(&url);
    let mut got: Vec<String> = res.hide_selectors.into_iter().collect();
    got.sort();
    expected.sort();
    json!({"reproduced": got != expected, "host": h, "domain": domain, "rules": rules, "got": got, "expected": expected})
}
fn c16_generic(v: &Value) -> Value {
    // CosmeticFilter's fields are public: build the value and call the public method
    use adblock::filters::cosmetic::{CosmeticFilter, CosmeticFilterAction, CosmeticFilterMask, CosmeticFilterOperator};
    let (e, h, ne, nh, act) = (b(&v["e"]), b(&v["h"]), b(&v["ne"]), b(&v["nh"]), b(&v["act"]));
    let mbits = u(&v["mbits"]) as u8;
    let f = CosmeticFilter {
        entities: if e { Some(vec![1]) } else { None },
        hostnames: if h { Some(vec![2]) } else { None },
        mask: CosmeticFilterMask::from_bits_retain(mbits),
        not_entities: if ne { Some(vec![3]) } else { None },
        not_hostnames: if nh { Some(vec![4]) } else { None },
        raw_line: None,
        selector: vec![CosmeticFilterOperator::CssSelector("a".into())],
        action: if act { Some(CosmeticFilterAction::Remove) } else { None },
        permission: Default::default(),
    };
    let g = f.hidden_generic_rule();
    let script = f.mask.contains(CosmeticFilterMask::SCRIPT_INJECT);
    let want = !e && !h && (ne || nh) && !act && !script;
    let ok = g.is_some() == want && f.has_hostname_constraint() == (e || h || ne || nh) && g.as_ref().map(|g| !g.has_hostname_constraint() && g.mask.bits() == mbits && g.action.is_none()).unwrap_or(true);
    json!({"reproduced": !ok, "twin": g.is_some(), "want_twin": want})
}
