use adblock::resources::PermissionMask;
use adblock::Engine;
use serde_json::{json, Value};
use std::panic::{catch_unwind, AssertUnwindSafe};

pub fn bytes(v: &Value) -> Vec<u8> {
    v.as_array().map(|a| a.iter().map(|x| x.as_u64().unwrap_or(0) as u8).collect()).unwrap_or_default()
}
pub fn u(v: &Value) -> u64 {
    v.as_u64().unwrap_or(0)
}
pub fn panic_msg(e: Box<dyn std::any::Any + Send>) -> String {
    e.downcast_ref::<String>().cloned().or_else(|| e.downcast_ref::<&str>().map(|s| s.to_string())).unwrap_or_else(|| "panic".into())
}

pub fn dispatch(which: &str, v: &Value, case: &Value) -> Value {
    match which {
        "c10_header" => c10_header(v),
        "c18_perm" => c18_perm(v),
        "selftest" => json!({"reproduced": true, "note": "selftest case"}),
        _ => json!({"reproduced": false, "error": format!("unknown replay routine {}", which), "case": case["kernel"]}),
    }
}

/// C10.header: the buffer is fed to the public Engine::deserialize; a panic reproduces the finding.
fn c10_header(v: &Value) -> Value {
    let buf = bytes(&v["buf"]);
    let len = (u(&v["len"]) as usize).min(buf.len());
    let data = buf[..len].to_vec();
    let r = catch_unwind(AssertUnwindSafe(|| {
        let mut e = Engine::default();
        e.deserialize(&data).is_ok()
    }));
    match r {
        Ok(ok) => json!({"reproduced": false, "deserialize_ok": ok, "input": data}),
        Err(e) => json!({"reproduced": true, "panic": panic_msg(e), "input": data, "api": "Engine::deserialize"}),
    }
}

fn c18_perm(v: &Value) -> Value {
    let (r, f) = (u(&v["required"]) as u8, u(&v["granted"]) as u8);
    let got = PermissionMask::from_bits(r).is_injectable_by(PermissionMask::from_bits(f));
    let want = r & !f == 0;
    json!({"reproduced": got != want, "got": got, "want": want})
}
