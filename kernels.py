"""Kernel registry: which Kani harness decides which part of which property (DESIGN.md section 5).

Each kernel names: the source file it is injected into (as a child module, so private functions are
reachable), the harness function, tiers, budget, the real functions executed, bounds, stubs, cuts, the
layout of its symbolic inputs (for decoding concrete-playback vectors) and the native replay routine.
"""
import struct

TRUSTED = [
    "rustc MIR -> Kani 0.68 -> CBMC 6.11 -> CaDiCaL; Kani's models of allocation and intrinsics",
    "harness/shim.rs: single-threaded Lazy stand-in for once_cell::sync::Lazy; naive memchr/memrchr/memmem::find stand-ins for the calls made by adblock's own sources",
    "stubs listed under coverage.stubs (regex paths are cut with assume(false); fast_hash is an injective packing = the property's own no-collision assumption)",
    "harness oracles (short reference functions over bytes/positions in harness/*.rs)",
    "for reported violations the above are removed from the trusted base by native replay (dev+release) through the public API",
]

# ---------------------------------------------------------------------------------------------- decode
# layout item: (name, type) with type in: u8 bool u32 u64 usize char  or ("bytes", N)
SIZES = {"u8": 1, "bool": 1, "u16": 2, "u32": 4, "u64": 8, "usize": 8, "char": 4, "i32": 4}


def _val(ty, bs):
    if isinstance(ty, tuple) and ty[0] == "bytes":
        return list(bs)
    n = int.from_bytes(bytes(bs), "little")
    if ty == "bool":
        return bool(n & 1)
    return n


def decode_layout(layout, vecs):
    """vecs: the concrete-playback byte vectors. Every harness input is drawn through verif_shim::Draw, which
    widens it and pins the high bits to a running tag (1, 2, ...) in draw order = layout order; inputs whose
    trace steps the slicer removed (the failing check does not depend on them) are simply absent and decode
    as 0 / false."""
    by_tag = {}
    for v in vecs:
        n = int.from_bytes(bytes(v), "little")
        if len(v) == 4:
            by_tag[n >> 8] = n & 0xFF
        elif len(v) == 8:
            by_tag[n >> 32] = n & 0xFFFFFFFF
        elif len(v) == 16:
            by_tag[n >> 64] = n & 0xFFFFFFFFFFFFFFFF
        else:
            return None
    out = {}
    tag = 1
    missing = 0
    def take():
        nonlocal tag, missing
        if tag not in by_tag:
            missing += 1
        x = by_tag.get(tag, 0)
        tag += 1
        return x
    for name, ty in layout:
        if isinstance(ty, tuple):
            out[name] = [take() for _ in range(ty[1])]
        elif ty == "bool":
            out[name] = bool(take() & 1)
        else:
            out[name] = take()
    if any(t >= tag or t < 1 for t in by_tag):
        return None  # a vector that does not belong to the layout: harness and registry disagree
    out["_inputs_sliced_away"] = missing
    return out


def decode_for_check(kern, check, playbacks, _text):
    """Kani prints one playback block per failing check / satisfied cover, headed by the check's description."""
    for pb in playbacks or []:
        if pb.get("desc") == check["desc"]:
            v = decode_layout(kern["layout"], pb["vals"])
            if v is None:
                continue
            v.update(kern.get("consts", {}))
            return v
    return None


def kern(id, inject, hfile, harness, tiers, expect_s, timeout_s, mem_gb, functions, bounds, layout, replay, asserts="", stubs=(), cuts=(), **kw):
    d = dict(id=id, inject=inject, hfile=hfile, harness=harness, tiers=tiers, expect_s=expect_s, timeout_s=timeout_s, mem_gb=mem_gb,
             functions=list(functions), bounds=bounds, layout=layout, replay=replay, asserts=asserts, stubs=list(stubs), cuts=list(cuts))
    d.update(kw)
    return d


Q, T = "quick", "thorough"
PROPERTIES = {}

# "container mode": std HashMap/HashSet in network_filter_list.rs and blocker.rs are replaced by the Vec-backed
# reference containers of harness/shim.rs (verif_shim::vm), and the call `filter.matches(..)` in the bucket scan
# goes through the identity indirection verif_shim::rule_matches so that kernels can abstract the per-rule matcher.
CONTAINER_SUBST = [
    (r"^use std::\{collections::HashMap, collections::HashSet, sync::Arc\};", "use std::sync::Arc;\nuse crate::verif_shim::vm::{HashMap, HashSet};", "src/network_filter_list.rs"),
    (r'^\s*#\[serde\(serialize_with = "crate::data_format::utils::stabilize_hashmap_serialization"\)\]\n', "", "src/network_filter_list.rs"),
    (r"filter\.matches\(request, regex_manager\)", "crate::verif_shim::rule_matches(filter, request, regex_manager)", "src/network_filter_list.rs"),
    (r"^use std::collections::HashSet;", "use crate::verif_shim::vm::HashSet;", "src/blocker.rs"),
]
CONTAINER_STUBS = ["std HashMap/HashSet in src/network_filter_list.rs and src/blocker.rs -> Vec-backed reference map/set (verif_shim::vm; linear search, insertion order)",
                   "verif_shim::rule_matches (identity indirection for filter.matches at the bucket-scan call sites) -> M[rule id]: the per-rule matcher outcome is a free symbolic boolean per rule (decided separately under C02/C03)"]
SCAN_LAYOUT = [("o1", "bool"), ("o2", "bool"), ("rt", "u8"), ("http", "bool"), ("https", "bool"), ("tp", "bool")]
def scan(pid, name, harness, tags, a_on, what, tiers=(Q, T)):
    return kern("%s.%s" % (pid, name), "src/network_filter_list.rs", "h_network_filter_list.rs", harness, list(tiers), 80, {Q: 900, T: 3000}, 16 if "all" in harness else 8,
                ["network_filter_list::NetworkFilterList::check" if "all" not in harness else "network_filter_list::NetworkFilterList::check_all", "request::Request::get_tokens_for_match"],
                "one bucket holding two rules with tags %s in this order, tag 'a' %s; per-rule matcher outcomes and request flags symbolic" % (tags, "enabled" if a_on else "not enabled"),
                SCAN_LAYOUT, "c01_scan", asserts=what, stubs=CONTAINER_STUBS + STD_REGEX_STUBS, subst=CONTAINER_SUBST, consts={"tags": tags, "a_on": a_on, "all": "all" in harness},
                witnesses_optional=(["W:scan.only_last_rule_matches", "W:scan.nothing_matches"] + ([] if a_on else ["W:scan.both_match"]) if "all" in harness else ["W:scan.both_match"] + (["W:scan.only_last_rule_matches"] if tags[1] is not None and not (a_on and tags[1] == "a") else [])))


def B(n):
    return ("bytes", n)
def U64S(n):
    return ("u64s", n)

STD_REGEX_STUBS = ["regex::Regex::new / Regex::is_match / RegexManager::matches -> assume(false) (regex crate cannot be compiled by Kani: every path that would evaluate a regex is cut; masks are built with the regex-kind bits syntactically off)",
                   "std::time::Instant::now -> frozen clock"]
PACK = "utils::fast_hash -> injective packing of (len, bytes) for strings <= 7 bytes (= the property's no-collision assumption), recording variant appends each value to a small static so emitted tokens are observed where they are produced"

# ------------------------------------------------------------------------------------------------- C01
TOK_LAYOUT = lambda n: [("fb", B(n)), ("fl", "usize"), ("pre", "u8"), ("post", "u8"), ("has_pre", "bool"), ("has_post", "bool"),
                        ("pre2", "u8"), ("post2", "u8"), ("has_pre2", "bool"), ("has_post2", "bool")]
def tok(kind, la, ra, tiers, expect, tmo, mem, two=False):
    n = 4 if two else 5
    return kern("C01.tok2.%s" % kind if two else "C01.tok.%s" % kind, "src/utils.rs", "h_utils.rs", ("c01_tok2_%s" if two else "c01_tok_%s") % kind, tiers, expect, tmo, mem,
                ["utils::fast_tokenizer_no_regex (twice: rule with the flags get_tokens passes, URL with (false,false))"],
                "rule: 1..=%d printable ASCII bytes without '*'/'^'; URL = pre(0..=%d) ++ rule ++ post(0..=%d), no context on an anchored side; anchors la=%s ra=%s" % (n, 2 if two else 1, 2 if two else 1, la, ra),
                TOK_LAYOUT(n), "c01_tok", asserts="every token the tokenizer emits for the rule is a token of the URL (rule tokens are a subset of URL tokens)",
                stubs=[PACK], cuts=["patterns containing '*' or '^' (regex kinds)"], consts={"la": la, "ra": ra})
def star(kind, la, ra):
    return kern("C01.star.%s" % kind, "src/utils.rs", "h_utils.rs", "c01_star_%s" % kind, [Q, T], 370, {Q: 1500, T: 3000}, 6,
                ["utils::fast_tokenizer_no_regex (rule with the flags get_tokens passes for a wildcard pattern, URL with (false,false))"],
                "rule = a ++ '*' ++ b with a, b 0..=3 printable ASCII bytes; URL = pre? ++ a ++ mid? ++ b ++ post? (one byte each), no pre/post on an anchored side; anchors la=%s ra=%s" % (la, ra),
                [("ab", B(3)), ("al", "usize"), ("bb", B(3)), ("bl", "usize"), ("pre", "u8"), ("mid", "u8"), ("post", "u8"), ("has_pre", "bool"), ("has_mid", "bool"), ("has_post", "bool")], "c01_star",
                asserts="every token emitted for a wildcard pattern is a token of every URL the pattern matches by construction ('*' = any run): tokens next to '*' are never bucket keys",
                stubs=[PACK], cuts=["'^' patterns; the regex matcher itself (the URL is built to match under ABP semantics)"], consts={"la": la, "ra": ra})
def gt(kind, la, ra, tiers, expect, tmo, mem):
    return kern("C01.gt.%s" % kind, "src/filters/network.rs", "h_network.rs", "c01_gt_%s" % kind, tiers, expect, tmo, mem,
                ["filters::network::NetworkFilter::get_tokens", "utils::tokenize_filter", "utils::tokenize_pooled", "utils::fast_tokenizer_no_regex", "utils::is_allowed_filter"],
                "rule: 1..=4 lower-case printable ASCII bytes without '*'/'^'; URL = pre(0..=1) ++ rule ++ post(0..=1); anchors la=%s ra=%s" % (la, ra),
                [("fb", B(4)), ("fl", "usize"), ("pre", "u8"), ("post", "u8"), ("has_pre", "bool"), ("has_post", "bool")], "c01_tok",
                asserts="tokens of get_tokens() (real flag selection) are a subset of the tokens of the URL (real tokenize_pooled, real Unicode predicate)",
                stubs=[PACK] + STD_REGEX_STUBS[:1], cuts=["patterns containing '*' or '^'"], consts={"la": la, "ra": ra})

PROPERTIES["C01"] = dict(
    kernels=[
        tok("plain", False, False, [Q], 260, {Q: 1200, T: 1800}, 5),
        tok("left", True, False, [Q], 250, {Q: 1200, T: 1800}, 5),
        tok("right", False, True, [Q], 270, {Q: 1200, T: 1800}, 5),
        tok("both", True, True, [Q], 250, {Q: 1200, T: 1800}, 5),
        star("plain", False, False), star("right", False, True), star("left", True, False), star("both", True, True),
        kern("C01.l1c", "src/utils.rs", "h_utils.rs", "c01_l1c", [Q, T], 20, 600, 4, ["utils::is_allowed_filter"], "every ASCII byte",
             [("c", "u8")], "c01_l1c", asserts="is_allowed_filter(c) <=> c in [0-9A-Za-z%]"),
        kern("C01.bin", "src/utils.rs", "h_utils.rs", "c01_bin_lookup", [Q, T], 10, 600, 4, ["utils::bin_lookup"], "sorted arrays of 0..=3 symbolic u64, symbolic needle",
             [("a", U64S(3)), ("n", "usize"), ("x", "u64")], "c01_bin", asserts="bin_lookup == linear membership"),
        kern("C01.flags", "src/filters/network.rs", "h_network.rs", "c01_flags", [Q, T], 60, 900, 6, ["filters::network::NetworkFilter::get_tokens", "utils::tokenize_filter", "utils::fast_tokenizer_no_regex"],
             "all 2^32 masks with the regex/host-anchor/removeparam kind bits syntactically zero; fixed pattern 'ab/cd/ef'", [("m", "u32")], "c01_flags",
             asserts="first run emitted iff not right-anchored, last iff right-anchored, middle always; scheme token iff exactly one of FROM_HTTP/FROM_HTTPS",
             stubs=[PACK] + STD_REGEX_STUBS[:1], consts={"mask_clear": (1 << 18) | (1 << 21) | (1 << 24) | (1 << 28) | (1 << 15)}),
        kern("C01.flags_host", "src/filters/network.rs", "h_network.rs", "c01_flags_host", [Q, T], 60, 900, 6, ["filters::network::NetworkFilter::get_tokens", "utils::tokenize_filter", "utils::tokenize"],
             "all 2^32 masks except the removeparam bit (IS_REGEX, IS_HOSTNAME_REGEX, IS_COMPLETE_REGEX symbolic); fixed pattern 'ab/cd/ef', fixed hostname 'gh.ij'", [("m", "u32")], "c01_flags_host",
             asserts="hostname tokens are offered iff the hostname has no wildcard; pattern tokens iff the pattern is not a complete regex; scheme token iff exactly one of FROM_HTTP/FROM_HTTPS",
             stubs=[PACK] + STD_REGEX_STUBS[:1], consts={"mask_clear": 1 << 15}),
        kern("C01.dom", "src/filters/network.rs", "h_network.rs", "c01_dom", [Q, T], 40, 900, 6, ["filters::network_matchers::check_options", "filters::network::NetworkFilter::get_tokens"],
             "all masks (kind bits off); one included domain hash; request source hashes absent or 0..=2 symbolic; scheme/party flags symbolic",
             [("m", "u32"), ("d", "u64"), ("s", U64S(2)), ("ns", "usize"), ("has_src", "bool"), ("http", "bool"), ("https", "bool"), ("tp", "bool")], "c01_dom",
             asserts="options pass and the rule is filed under its single included domain => that hash is among the request's source-hostname hashes",
             stubs=[PACK] + STD_REGEX_STUBS[:1], consts={"mask_clear": (1 << 18) | (1 << 21) | (1 << 24) | (1 << 28) | (1 << 15)}),
        kern("C01.scheme", "src/filters/network.rs", "h_network.rs", "c01_scheme", [Q, T], 10, 600, 4, ["filters::network_matchers::check_options"],
             "all masks (kind bits off) x request scheme class {http, https, ws/wss} x party", [("m", "u32"), ("sc", "u8"), ("tp", "bool")], "c01_scheme",
             asserts="options pass and get_tokens adds the 'http'/'https' token => the request has that scheme (so its URL carries that token)",
             stubs=[PACK], consts={"mask_clear": (1 << 18) | (1 << 21) | (1 << 24) | (1 << 28) | (1 << 15)}),
        scan("C01", "scan.untagged", "c01_scan_untagged", [None, None], False, "check returns a rule iff some rule of the probed bucket matches, and the returned rule is a matching one"),
        scan("C01", "scan.after_inactive_tag", "c01_scan_tagged_first_off", ["a", None], False, "a matching rule stored after a rule whose tag is not enabled is still found"),
        kern("C01.host_tokens", "src/filters/network_matchers.rs", "h_network_matchers.rs", "c01_host_tokens", [T], 1800, 4800, 28, ["filters::network_matchers::is_anchored_by_hostname", "utils::tokenize_pooled", "utils::fast_tokenizer_no_regex"],
             "filter host 1..=3 bytes of [a-z0-9.-], request host = valid hostname 1..=5 bytes, URL = 's://' ++ host ++ optional '/',':','?'", [("fb", B(3)), ("fl", "usize"), ("hb", B(5)), ("hl", "usize"), ("t", "u8"), ("has_t", "bool")], "c01_host_tokens",
             asserts="the filter host anchors in the request host => every token of the filter host is a token of the URL", stubs=[PACK]),
        gt("left", True, False, [T], 560, 2400, 16),
        gt("right", False, True, [T], 590, 2400, 16),
        gt("plain", False, False, [T], 600, 2400, 16),
        gt("both", True, True, [T], 600, 2400, 16),
        tok("plain", False, False, [T], 400, 2400, 16, two=True),
        tok("left", True, False, [T], 400, 2400, 16, two=True),
        tok("right", False, True, [T], 400, 2400, 16, two=True),
    ],
    level_text="Decides token soundness for the non-regex pattern kinds: if a rule's pattern occurs in a URL at its anchored position, every token the rule can be bucketed under is a token the request probes (real tokenizer on both sides, observed at the hash call site, no model), plus the flag selection of get_tokens, the single-domain bucket key and the scheme token against check_options.",
    level_note="Partial. Decided: the tokenisation half of C01 (a matching rule is never filed under a key the request does not probe) for plain/left/right/left+right anchored literal patterns <= 5 bytes with 1 context byte (2 in thorough) and for wildcard patterns a*b (a, b <= 3 bytes) against URLs they match by construction, all masks; which tokens get_tokens offers (pattern, hostname, scheme, single domain); the bucket scan of NetworkFilterList::check on buckets of concrete shape (container mode). Outside: bucket selection and lookup through std HashMap, regex-kind patterns ('*','^','/re/'), verdict combination in Blocker, URLs >= 127 tokens. Known finding (role first-token-left-unanchored) is reported as KNOWN-FINDING, every other violation as VIOLATION.",
    outside=["bucket selection + lookup through HashMap (symbolic key insert+get >15 min)", "regex-kind patterns (regex crate: Kani ICE)", "verdict combination in Blocker::check (>25 min in three container encodings)", "URLs with >= 127 tokens (excluded by the property)"],
    assumptions=["no 64-bit seahash collision (fast_hash is replaced by an injective packing)", "one context byte on each side is without loss of generality for token arguments (a token is a maximal alphanumeric run); thorough tier uses two",
                 "C01.tok uses an ASCII token-character closure; C01.l1c ties it to the real is_allowed_filter on ASCII; C01.gt (thorough) uses the real predicate"],
)

# ------------------------------------------------------------------------------------------------- C02
PROPERTIES["C02"] = dict(
    kernels=[
        kern("C02.anchor", "src/filters/network_matchers.rs", "h_network_matchers.rs", "c02_anchor", [Q], 10, 600, 6, ["filters::network_matchers::is_anchored_by_hostname"],
             "filter-host 0..=3 bytes of [a-z0-9.-], request host = valid hostname 1..=6 bytes, wildcard flag", [("fb", B(3)), ("fl", "usize"), ("hb", B(6)), ("hl", "usize"), ("w", "bool")], "c02_anchor",
             asserts="anchored <=> some occurrence of the filter host in the request host has a label boundary on both sides (start/'.'/own '.', end/'.'/own '.'/wildcard)"),
        kern("C02.anchor_t", "src/filters/network_matchers.rs", "h_network_matchers.rs", "c02_anchor_t", [T], 120, 2400, 12, ["filters::network_matchers::is_anchored_by_hostname"],
             "filter-host 0..=3 bytes, request host = valid hostname 1..=7 bytes, wildcard flag", [("fb", B(3)), ("fl", "usize"), ("hb", B(7)), ("hl", "usize"), ("w", "bool")], "c02_anchor",
             asserts="as C02.anchor"),
        kern("C02.plain", "src/filters/network_matchers.rs", "h_network_matchers.rs", "c02_plain", [Q], 20, 600, 6,
             ["filters::network_matchers::check_pattern", "check_pattern_plain_filter_filter", "check_pattern_left_anchor_filter", "check_pattern_right_anchor_filter", "check_pattern_left_right_anchor_filter", "request::Request::get_url"],
             "pattern 1..=2 printable ASCII bytes, URL 0..=4 printable ASCII bytes, anchors and MATCH_CASE symbolic",
             [("fb", B(2)), ("fl", "usize"), ("ub", B(4)), ("ul", "usize"), ("la", "bool"), ("ra", "bool"), ("mc", "bool")], "c02_plain",
             asserts="match <=> substring / prefix / suffix / equality of the pattern in the case-folded URL (original spelling under MATCH_CASE)", stubs=STD_REGEX_STUBS),
        kern("C02.plain_t", "src/filters/network_matchers.rs", "h_network_matchers.rs", "c02_plain_t", [T], 120, 2400, 12,
             ["filters::network_matchers::check_pattern (plain/left/right/left+right arms)"],
             "pattern 1..=3, URL 0..=5 printable ASCII bytes", [("fb", B(3)), ("fl", "usize"), ("ub", B(5)), ("ul", "usize"), ("la", "bool"), ("ra", "bool"), ("mc", "bool")], "c02_plain",
             asserts="as C02.plain", stubs=STD_REGEX_STUBS),
        kern("C02.host.left", "src/filters/network_matchers.rs", "h_network_matchers.rs", "c02_host_left", [T], 210, 2400, 12,
             ["filters::network_matchers::check_pattern", "check_pattern_hostname_left_anchor_filter", "is_anchored_by_hostname", "get_url_after_hostname"],
             "filter-host 1..=2 of [a-z0-9.-], request host valid 1..=3, remainder 1..=2 starting with '/', URL tail 0..=2 starting with '/',':' or '?'; URL = 's://' ++ host ++ tail",
             [("hb", B(2)), ("hl", "usize"), ("rb", B(3)), ("rl", "usize"), ("fb", B(2)), ("fl", "usize"), ("tb", B(2)), ("tl", "usize")], "c02_host",
             asserts="match <=> some label-boundary occurrence of the filter host in the host with the remainder a prefix of the URL text directly after it", stubs=STD_REGEX_STUBS, consts={"la": True, "ra": False}),
        kern("C02.host.unanchored", "src/filters/network_matchers.rs", "h_network_matchers.rs", "c02_host_unanchored", [T], 1500, 4000, 40,
             ["filters::network_matchers::check_pattern", "check_pattern_hostname_anchor_filter", "is_anchored_by_hostname", "get_url_after_hostname"],
             "'||fh*f': filter-host 1..=2 of [a-z0-9.-], request host valid 1..=3, literal f 1..=2 printable ASCII, URL tail 0..=2; URL = 's://' ++ host ++ tail",
             [("hb", B(2)), ("hl", "usize"), ("rb", B(3)), ("rl", "usize"), ("fb", B(2)), ("fl", "usize"), ("tb", B(2)), ("tl", "usize")], "c02_host",
             asserts="match <=> some occurrence of the filter host starts at a label boundary of the host and the literal occurs in the URL text after it",
             stubs=STD_REGEX_STUBS + ["str::contains at the one call site of this arm -> naive substring search (textual substitution; std's SIMD search does not finish under Kani)"],
             subst=[(r"url_after_hostname\.contains\(f\)", "crate::verif_shim::mc::memmem::find(url_after_hostname.as_bytes(), f.as_bytes()).is_some()", "src/filters/network_matchers.rs")],
             consts={"la": False, "ra": False, "unanchored": True}),
        kern("C02.host.both", "src/filters/network_matchers.rs", "h_network_matchers.rs", "c02_host_both", [T], 230, 2400, 12,
             ["filters::network_matchers::check_pattern", "check_pattern_hostname_left_right_anchor_filter", "is_anchored_by_hostname", "get_url_after_hostname"],
             "as C02.host.left", [("hb", B(2)), ("hl", "usize"), ("rb", B(3)), ("rl", "usize"), ("fb", B(2)), ("fl", "usize"), ("tb", B(2)), ("tl", "usize")], "c02_host",
             asserts="match <=> ... with the remainder equal to the URL text after that occurrence", stubs=STD_REGEX_STUBS, consts={"la": True, "ra": True}),
    ],
    level_text="Decides that every non-regex matcher path agrees with the ABP reference semantics: hostname anchoring at label boundaries (all occurrences), and the plain / left / right / left+right anchored literal arms incl. case folding; thorough adds the host-anchored arms (left, left+right, and the unanchored `||host*text` arm) with the remainder after the host.",
    level_note="Partial. Decided: is_anchored_by_hostname and the literal matcher arms for all byte strings inside the bounds. Outside: '*'/'^' patterns and /re/ rules (compile_regex + regex crate cannot be compiled by Kani), hence the weakening relations; parse-time extraction of hostname/pattern from rule text; the right-anchored-only host arm (arises only from '||host*...|', excluded by the property). Known finding (role remainder-after-first-occurrence-in-url) in thorough.",
    outside=["'*' / '^' -> regex translation and /re/ rules (Kani ICE on the regex crate)", "parse-time extraction for '||host^...' (uses a Regex)", "right-anchored-only host arm (outside the property's domain)"],
    assumptions=["request hostnames satisfy the documented validity predicate (non-empty [a-z0-9-] labels joined by single dots)", "Request.hostname is the host slice of Request.url (what Request::new guarantees)"],
)

# ------------------------------------------------------------------------------------------------- C03
OPTS_LAYOUT = [("m", "u32"), ("t", "u8"), ("inc", U64S(3)), ("ni", "usize"), ("exc", U64S(3)), ("ne", "usize"), ("src", U64S(3)), ("ns", "usize"),
               ("has_src", "bool"), ("has_iu", "bool"), ("has_eu", "bool"), ("http", "bool"), ("https", "bool"), ("tp", "bool")]
PROPERTIES["C03"] = dict(
    kernels=[
        kern("C03.opts", "src/filters/network_matchers.rs", "h_network_matchers.rs", "c03_opts", [Q], 80, 900, 8,
             ["filters::network_matchers::check_options", "NetworkFilterMaskHelper::check_cpt_allowed", "From<&RequestType> for NetworkFilterMask", "utils::bin_lookup"],
             "all 2^32 masks x 17 request types x scheme/party flags x included/excluded lists of 0..=2 sorted symbolic hashes (union word present or absent) x source hashes absent or 0..=2 symbolic",
             OPTS_LAYOUT, "c03_opts", asserts="check_options == reference over the meaning of the mask bits (type bit / document rule, http/https bits, party bits, include satisfied iff some source hash listed and never without a source, exclude violated iff some source hash listed, badfilter never)"),
        kern("C03.opts_t", "src/filters/network_matchers.rs", "h_network_matchers.rs", "c03_opts_t", [T], 400, 2400, 16,
             ["filters::network_matchers::check_options"], "as C03.opts with lists and source hashes of 0..=3", OPTS_LAYOUT, "c03_opts", asserts="as C03.opts"),
    ],
    level_text="Decides the request-side half of option semantics exhaustively: for every mask, request type, scheme/party flag combination and small include/exclude/source hash lists, check_options equals a reference written over the meaning of the bits.",
    level_note="Partial. Decided: check_options (+ check_cpt_allowed, request-type -> bit mapping, the OR-union pre-filter) for all 2^32 masks. Outside: option text -> mask (NetworkFilter::parse: one concrete parse >25 min; '||host^' implicit types sit behind a Regex), so the statement is relative to 'the parser sets the bits the documentation says'.",
    outside=["option text -> mask (NetworkFilter::parse)", "match-case (pattern side, see C02.plain)", "unsupported schemes (see C12.scheme)"],
    assumptions=["domain hash lists are sorted (the parser sorts them; bin_lookup relies on it)"],
)

# ------------------------------------------------------------------------------------------------- C04
ID_LAYOUT = lambda n: [("my", "u32"), ("a", B(n)), ("al", "usize"), ("b", B(n)), ("bl", "usize"), ("c", B(n)), ("cl", "usize"), ("d", B(n)), ("dl", "usize"),
                       ("has_hy", "bool"), ("has_hz", "bool"), ("dy", "u64"), ("dz", "u64"), ("has_dy", "bool"), ("has_dz", "bool"),
                       ("ny", "u64"), ("nz", "u64"), ("has_ny", "bool"), ("has_nz", "bool"), ("my2", "u32")]
def prec(name, harness, shape, consts, optional):
    return kern("C04.prec." + name, "src/blocker.rs", "h_blocker.rs", harness, [Q, T], 250, 1800, 11, ["blocker::Blocker::check_parameterised", "network_filter_list::NetworkFilterList::check"],
                "Blocker of concrete shape: " + shape + "; per-rule matcher outcomes, matched_rule and force_check_exceptions symbolic",
                [("o1", "bool"), ("o2", "bool"), ("o3", "bool"), ("matched_rule", "bool"), ("force", "bool")], "c04_prec",
                asserts="matched / important / exception / filter fields equal the documented precedence for every combination of per-rule outcomes",
                stubs=CONTAINER_STUBS + STD_REGEX_STUBS + ["std::hash::RandomState::new -> fixed seed (the std maps created by Default are never accessed)"],
                subst=CONTAINER_SUBST, consts=consts, witnesses_optional=optional)
PROPERTIES["C04"] = dict(
    kernels=[
        kern("C04.id", "src/filters/network.rs", "h_network.rs", "c04_id", [Q], 30, 900, 8, ["filters::network::compute_filter_id", "NetworkFilter::get_id", "NetworkFilter::get_id_without_badfilter"],
             "two rule values y, z$badfilter: arbitrary mask, filter and hostname strings 0..=2 printable ASCII bytes, hostname present/absent, 0..=1 included-domain hash, 0..=1 excluded-domain hash",
             ID_LAYOUT(2), "c04_id", asserts="(<=) same pattern+hostname+domains+mask => get_id_without_badfilter(z) == get_id(y); (=>) equal ids => same rule [known: id stream has no delimiters]; the mask is part of the id"),
        prec("plain", "c04_prec_plain", "one important rule, one normal blocking rule, one exception (no tags)", {"tagged": False, "a_on": False}, ["W:prec.excepted"][:0]),
        prec("tag_off", "c04_prec_tag_off", "one tagged ('a') and one untagged blocking rule, one tagged ('a') exception; tag 'a' not enabled", {"tagged": True, "a_on": False}, ["W:prec.important_beats_exception", "W:prec.excepted"]),
        prec("tag_on", "c04_prec_tag_on", "as tag_off with tag 'a' enabled", {"tagged": True, "a_on": True}, ["W:prec.important_beats_exception"]),
        kern("C04.idmask", "src/filters/network.rs", "h_network.rs", "c04_id_mask", [T], 120, 2400, 12, ["filters::network::compute_filter_id"],
             "as C04.id with strings 0..=1 plus a second arbitrary mask", ID_LAYOUT(1), "c04_id", asserts="two rules that differ only in their option mask have different ids (the mask is part of the id)"),
        kern("C04.id3", "src/filters/network.rs", "h_network.rs", "c04_id3", [T], 120, 2400, 12, ["filters::network::compute_filter_id"], "as C04.id with strings 0..=3", ID_LAYOUT(3), "c04_id", asserts="as C04.id"),
    ],
    level_text="Decides badfilter identity at the level of the id function: a $badfilter twin of a rule (same pattern, hostname, domains, options) always produces the id that cancels it, and the option mask is part of the id; that badfilter rules never match is decided under C03.opts.",
    level_note="Partial. Decided: compute_filter_id/get_id/get_id_without_badfilter for all masks and bounded strings. Outside: evaluation order important -> normal -> exception and both monotonicity statements (Blocker::check_parameterised over eight HashMap-backed lists). Known finding: structural id collisions (role badfilter-id-collision).",
    outside=["precedence / monotonicity at Blocker::check level (HashMap x8)", "tag differences between a rule and its badfilter twin (outside the property's domain)"],
    assumptions=[],
)

# ------------------------------------------------------------------------------------------------- C05
FUSE_LAYOUT = lambda p, u: [("b1", B(p)), ("l1", "usize"), ("b2", B(p)), ("l2", "usize"), ("ub", B(u)), ("ul", "usize"), ("e1", "bool"), ("e2", "bool"), ("m", "u32"),
                            ("t1", "bool"), ("t2", "bool"), ("rt_script", "bool"), ("tp", "bool"), ("tag_on", "bool")]
FUSE_FUNCS = ["optimizer::SimplePatternGroup::select", "optimizer::SimplePatternGroup::fusion", "NetworkMatchable::matches (check_options + check_pattern incl. AnyOf iteration)"]
FUSE_CONSTS = {"mask_clear": (1 << 18) | (1 << 21) | (1 << 24) | (1 << 28) | (1 << 14)}
PROPERTIES["C05"] = dict(
    kernels=[
        kern("C05.fuse", "src/optimizer.rs", "h_optimizer.rs", "c05_fuse", [Q, T], 70, 1200, 12, FUSE_FUNCS,
             "two rules with the same symbolic mask (regex/host-anchor/match-case kind bits off), patterns 1..=2 printable ASCII bytes, tag in {none,'a'} each, URL 0..=3 bytes, request type/party and tag-enabled flag symbolic",
             FUSE_LAYOUT(2, 3), "c05_fuse", asserts="select(f1) and select(f2) => (fused matches and is active <=> f1 matches and is active or f2 matches and is active)",
             stubs=STD_REGEX_STUBS, consts=dict(FUSE_CONSTS, force_e1=False, force_e2=False)),
        kern("C05.fuse_e1", "src/optimizer.rs", "h_optimizer.rs", "c05_fuse_e1", [Q, T], 70, 1200, 12, FUSE_FUNCS,
             "as C05.fuse, the first rule has an empty pattern (matches every URL)", FUSE_LAYOUT(2, 3), "c05_fuse", asserts="as C05.fuse", stubs=STD_REGEX_STUBS, consts=dict(FUSE_CONSTS, force_e1=True),
             witnesses_optional=["W:fuse.second_member_decides"]),
        kern("C05.fuse_e2", "src/optimizer.rs", "h_optimizer.rs", "c05_fuse_e2", [Q, T], 70, 1200, 12, FUSE_FUNCS,
             "as C05.fuse, the second rule has an empty pattern", FUSE_LAYOUT(2, 3), "c05_fuse", asserts="as C05.fuse", stubs=STD_REGEX_STUBS, consts=dict(FUSE_CONSTS, force_e2=True)),
        kern("C05.fuse_anyof", "src/optimizer.rs", "h_optimizer.rs", "c05_fuse_anyof", [Q, T], 100, 1200, 12, FUSE_FUNCS,
             "as C05.fuse, the first rule is an already fused rule (AnyOf of two 1-byte alternatives): re-fusion after add_filter + optimize", FUSE_LAYOUT(2, 3), "c05_fuse", asserts="as C05.fuse",
             stubs=STD_REGEX_STUBS, consts=dict(FUSE_CONSTS, force_e1=False, force_e2=False, anyof1=True)),
        kern("C05.select", "src/optimizer.rs", "h_optimizer.rs", "c05_select", [Q, T], 10, 600, 4, ["optimizer::SimplePatternGroup::select"],
             "all 2^32 masks x domain list / excluded list / tag present or absent", [("m", "u32"), ("has_d", "bool"), ("has_n", "bool"), ("has_tag", "bool")], "c05_select",
             asserts="select refuses domain-bearing, tagged, redirect, csp and host-anchored rules (a fused rule cannot represent their extra fields)"),
        kern("C05.fuse_t", "src/optimizer.rs", "h_optimizer.rs", "c05_fuse_t", [T], 600, 2400, 28, FUSE_FUNCS,
             "as C05.fuse with URL 0..=4 bytes", FUSE_LAYOUT(2, 4), "c05_fuse", asserts="as C05.fuse", stubs=STD_REGEX_STUBS, consts=dict(FUSE_CONSTS, force_e1=False, force_e2=False)),
    ],
    level_text="Decides the fusion step: for any two rules the grouping key allows to fuse, the fused rule is active-and-matching exactly when some member is, for every request inside the bound; and eligibility (select) refuses the rule kinds a fused rule cannot represent.",
    level_note="Partial. Decided: SimplePatternGroup::select + fusion against the real per-rule matcher. The grouping key format!(\"{:b}:{:?}\", mask, is_complete_regex) is modelled as 'same mask' (format! is not executed). Outside: the optimize() driver (partition, HashMap<String,Vec<_>>, re-sort), regex-kind members, which lists are optimised.",
    outside=["optimize() driver (HashMap<String,_> + format!)", "regex-kind members", "removeparam list is never optimised (constructor argument)"],
    assumptions=["group_by_criteria groups exactly the rules with equal masks (read, not executed)"],
)

# ------------------------------------------------------------------------------------------------- C08
V0_FUNCS = ["data_format::v0::NetworkFilterV0SerializeFmt::from(&NetworkFilter)", "NetworkFilter::from(NetworkFilterV0DeserializeFmt)"]
V0_CUT = ["rmp-serde byte codec modelled as the identity on each field (6 symbolic bytes through rmp-serde: 11 GB, no result)"]
PROPERTIES["C08"] = dict(
    kernels=[
        kern("C08.rule", "src/data_format/v0.rs", "h_v0.rs", "c08_rule", [Q, T], 20, 900, 8, V0_FUNCS,
             "arbitrary rule value: all 2^32 masks; modifier/hostname/tag/raw_line each none or a 1-byte string; any id",
             [("m", "u32"), ("has_mod", "bool"), ("has_host", "bool"), ("has_tag", "bool"), ("has_raw", "bool"), ("cm", "u8"), ("ch", "u8"), ("ct", "u8"), ("cr", "u8"), ("id", "u64")],
             "c08_rule", asserts="engine rule -> wire struct -> engine rule preserves mask, id, hostname, tag, raw_line presence and modifier_option", cuts=V0_CUT),
        kern("C08.domains", "src/data_format/v0.rs", "h_v0.rs", "c08_rule_domains", [Q, T], 20, 900, 8, V0_FUNCS,
             "included / excluded domain lists of 0..=2 symbolic hashes; union words present or absent independently",
             [("nd", "u8"), ("nn", "u8"), ("d0", "u64"), ("d1", "u64"), ("n0", "u64"), ("n1", "u64"), ("has_du", "bool"), ("has_nu", "bool"), ("du", "u64"), ("nu", "u64")],
             "c08_rule", asserts="both domain lists and both union words survive unchanged and unswapped", cuts=V0_CUT),
        kern("C08.order.rule", "src/data_format/v0.rs", "h_v0.rs", "c08_order_rule", [Q, T], 60, 900, 8, ["derive(Serialize) for NetworkFilterV0SerializeFmt", "derive(Deserialize) for NetworkFilterV0DeserializeFmt"],
             "field position i symbolic over the 13 fields", [("i", "usize")], "c08_order", asserts="the serialize-side and deserialize-side wire structs list the same fields in the same order (the msgpack encoding is positional)",
             cuts=["the field lists are obtained from the derived impls through a recording serde back end written in the harness"]),
        kern("C08.order.format", "src/data_format/v0.rs", "h_v0.rs", "c08_order_format", [Q, T], 60, 900, 8, ["derive(Serialize) for data_format::v0::SerializeFormat", "derive(Deserialize) for data_format::v0::DeserializeFormat", "SerializeFormat::from((&Blocker, &CosmeticFilterCache))"],
             "section position i symbolic over the sections of the format", [("i", "usize")], "c08_order", asserts="the write side and the read side of the top-level format list the same sections in the same order",
             stubs=["std::hash::RandomState::new -> fixed seed (empty maps only)", "std::time::Instant::now -> frozen clock"],
             cuts=["the field lists are obtained from the derived impls through a recording serde back end written in the harness"]),
        kern("C08.pattern.simple", "src/data_format/v0.rs", "h_v0.rs", "c08_rule_pattern_simple", [Q, T], 20, 900, 8, V0_FUNCS,
             "pattern Simple(1 symbolic byte)", [("c0", "u8"), ("c1", "u8")], "c08_rule", asserts="the pattern part survives unchanged", cuts=V0_CUT),
        kern("C08.pattern.anyof", "src/data_format/v0.rs", "h_v0.rs", "c08_rule_pattern_anyof", [Q, T], 20, 900, 8, V0_FUNCS,
             "pattern AnyOf(2 x 1 symbolic byte)", [("c0", "u8"), ("c1", "u8")], "c08_rule", asserts="the pattern part survives unchanged", cuts=V0_CUT),
    ],
    level_text="Decides field-by-field fidelity of the hand-written rule mapping engine-rule -> wire struct -> engine-rule for arbitrary rule values (all masks, every optional field).",
    level_note="Partial. Decided: the two rule-level From impls of data_format/v0.rs, and that the write-side and read-side wire structs (per rule and top-level format) list the same fields in the same order (the msgpack encoding is positional). Outside: msgpack byte codec (rmp-serde), list-level and cosmetic-DB mappings (iterate std HashMaps: one-entry round trip no result in 15 min), query-level equality. Known finding: modifier_option survives only under the redirect/csp bit (removeparam rules lose their parameter; role modifier-option-only-kept-for-redirect-and-csp).",
    outside=["msgpack byte codec (rmp-serde)", "list-level mapping and cosmetic DB conversion (std HashMap iteration)", "query-level equality (needs the engine)"],
    assumptions=["rmp-serde round-trips each field value faithfully"],
)

# ------------------------------------------------------------------------------------------------- C10
PROPERTIES["C10"] = dict(
    kernels=[
        kern("C10.header", "src/data_format/mod.rs", "h_data_format_mod.rs", "c10_header", [Q], 5, 300, 4,
             ["data_format::DeserializeFormat::deserialize (header/version dispatch)"],
             "every buffer of length 0..=11 (11 symbolic bytes, symbolic length)", [("buf", B(11)), ("len", "usize")], "c10_header",
             asserts="no panic / out-of-bounds index for any buffer", panic_free=True,
             stubs=["data_format::v0::DeserializeFormat::deserialize -> Err (rmp-serde body decode is out of reach)"]),
        kern("C10.header16", "src/data_format/mod.rs", "h_data_format_mod.rs", "c10_header_16", [T], 10, 900, 8,
             ["data_format::DeserializeFormat::deserialize (header/version dispatch)"],
             "every buffer of length 0..=16", [("buf", B(16)), ("len", "usize")], "c10_header",
             asserts="no panic / out-of-bounds index for any buffer", panic_free=True,
             stubs=["data_format::v0::DeserializeFormat::deserialize -> Err (rmp-serde body decode is out of reach)"]),
        kern("C10.atomic", "src/engine.rs", "h_engine.rs", "c10_atomic", [Q, T], 120, 1200, 12, ["engine::Engine::deserialize", "data_format::DeserializeFormat::deserialize (header/version dispatch)", "blocker::Blocker::tags_enabled"],
             "every buffer of length 0..=8; engine with tag 'a' enabled, optimisation on, no rules", [("buf", B(8)), ("len", "usize")], "c10_atomic",
             asserts="when loading fails (any header error, or any failure of the body decoder) the enabled tags, the options and the rule lists are what they were before the call",
             stubs=["data_format::v0::DeserializeFormat::deserialize -> Err (the rmp-serde body decoder is a black box that fails)", "std::hash::RandomState::new -> fixed seed", "std::time::Instant::now -> frozen clock"] + CONTAINER_STUBS[:1],
             subst=CONTAINER_SUBST, also_inject=[("src/data_format/mod.rs", "h_data_format_mod.rs")]),
        kern("C10.rule_a", "src/filters/network_matchers.rs", "h_network_matchers.rs", "c10_rule_a", [Q, T], 5, 300, 4,
             ["filters::network_matchers::check_pattern (all arms)", "filters::network_matchers::check_options"],
             "decoded rule value: any of the 2^32 masks, hostname absent, pattern empty; fixed well-formed request", [("m", "u32")], "c10_rule_a",
             asserts="the matcher returns (no unreachable!/unwrap panic) for every mask", panic_free=True, stubs=STD_REGEX_STUBS),
    ],
    level_text="Decides that the header/version dispatch in front of the msgpack decoder cannot panic for any buffer up to the bound, and that a decoded rule value with any of the 2^32 masks and absent hostname cannot panic the matcher.",
    level_note="Partial. Decided: data_format::DeserializeFormat::deserialize dispatch for every buffer <= 11 bytes (16 thorough) with the rmp-serde body decoder stubbed to Err; check_pattern/check_options on rule values with arbitrary mask and no hostname; Engine::deserialize leaves the enabled tags, the options and the rule lists unchanged whenever it returns Err (every buffer <= 8 bytes, body decoder a failing black box, container mode). Outside: rmp-serde decode of corrupted bodies, rule values with hostname/pattern strings (str::contains >20 min), atomicity beyond 'error returns before any assignment' (read).",
    outside=["decode of corrupted bodies (rmp-serde)", "rule values with hostname/pattern strings", "atomicity beyond 'error returns before any assignment'", "allocation bounds"],
    assumptions=["the v0 body decoder either returns Err or a value; it is stubbed to Err"],
)

# ------------------------------------------------------------------------------------------------- C11
SPLIT_LAYOUT = [("a", "bool"), ("c", "bool"), ("b", "bool"), ("x", "u8"), ("ch", "char"), ("y", "u8")]
PROPERTIES["C11"] = dict(
    kernels=[
        kern("C11.split", "src/filters/abstract_network.rs", "h_abstract_network.rs", "c11_split", [Q], 40, 900, 8, ["filters::abstract_network::AbstractNetworkFilter::parse"],
             "line = ASCII? . arbitrary char? (every Unicode scalar value)", SPLIT_LAYOUT, "c11_split", asserts="no panic, every slice on a char boundary; pattern is a sub-slice of the line", panic_free=True,
             stubs=["filters::abstract_network::parse_filter_options -> Err (its result never feeds a slice offset)"]),
        kern("C11.split_t", "src/filters/abstract_network.rs", "h_abstract_network.rs", "c11_split_t", [T], 270, 2400, 12, ["filters::abstract_network::AbstractNetworkFilter::parse"],
             "line = ASCII? . arbitrary char? . ASCII?", SPLIT_LAYOUT, "c11_split", asserts="as C11.split", panic_free=True,
             stubs=["filters::abstract_network::parse_filter_options -> Err"]),
        kern("C11.sep", "src/resources/resource_storage.rs", "h_resource_storage.rs", "c18_sep", [T], 2000, 5400, 16, ["resources::resource_storage::index_next_unescaped_separator"],
             "3 printable ASCII bytes, symbolic length", [("b", B(3)), ("l", "usize")], "c18_sep", asserts="no panic; returned index in range, points at an unescaped ','; None only if every ',' is escaped", panic_free=True),
    ],
    level_text="Decides totality (no panic, every slice on a char boundary) of the network-rule front end (exception / '$' split / anchors) on strings that put an arbitrary Unicode scalar next to the ASCII delimiters the offsets are computed from; thorough adds the scriptlet-argument separator scan. Thin claim.",
    level_note="Partial and thin. Decided: AbstractNetworkFilter::parse with option parsing cut. Outside: rule-kind detection (detect_filter_type: >12 min at 3 chars), NetworkFilter::parse / CosmeticFilter::parse / hosts branch (regex, idna), metadata cut-off (>15 min), line independence (structural).",
    outside=["lists::detect_filter_type (str::contains)", "NetworkFilter::parse, CosmeticFilter::parse, hosts branch (regex, idna, memory)", "read_list_metadata cut-off", "line independence", "rule-type options"],
    assumptions=["parse_filter_options' result is not used for slicing (read)"],
)

# ------------------------------------------------------------------------------------------------- C12
PROPERTIES["C12"] = dict(
    kernels=[
        kern("C12.scheme", "src/request.rs", "h_request.rs", "c12_scheme", [Q, T], 5, 600, 4, ["request::Request::from_detailed_parameters", "request::cpt_match_type"],
             "every scheme string 0..=5 printable ASCII bytes x 3 request-type strings", [("sb", B(5)), ("sl", "usize"), ("ty", "u8")], "c12_scheme",
             asserts="is_http <=> 'http'; is_https <=> 'https' or empty; supported <=> {'',http,https,ws,wss}; websocket type forced <=> ws/wss", stubs=[PACK]),
        kern("C12.types", "src/request.rs", "h_request.rs", "c12_types", [Q, T], 20, 600, 4, ["request::cpt_match_type"], "the 24 documented spellings + one unknown, chosen by a symbolic index", [("i", "usize")], "c12_types",
             asserts="alias table maps each spelling to the documented request type"),
        kern("C12.srchash", "src/request.rs", "h_request.rs", "c12_srchash", [Q], 60, 1200, 10, ["request::Request::preparsed", "request::Request::from_detailed_parameters"],
             "source host 0..=4 printable ASCII bytes", [("hb", B(4)), ("hl", "usize")], "c12_srchash",
             asserts="source hashes absent iff host empty; else hash(full host) followed by hash of the suffix after each '.' that is not the last byte, nothing else", stubs=[PACK]),
        kern("C12.presplit_t", "src/request.rs", "h_request.rs", "c12_presplit_t", [T], 120, 2400, 12, ["request::Request::preparsed", "request::Request::from_detailed_parameters"],
             "every URL string 0..=16 printable ASCII bytes", [("ub", B(16)), ("ul", "usize")], "c12_presplit",
             asserts="as C12.presplit", stubs=["utils::tokenize_pooled -> no-op (URL tokens do not feed the classification)"]),
        kern("C12.presplit", "src/request.rs", "h_request.rs", "c12_presplit", [Q], 60, 1500, 12, ["request::Request::preparsed", "request::Request::from_detailed_parameters"],
             "every URL string 0..=10 printable ASCII bytes", [("ub", B(10)), ("ul", "usize")], "c12_presplit",
             asserts="the scheme is the URL prefix before the first ':' (empty when there is none); supported <=> that prefix in {'',http,https,ws,wss}; ws/wss force the websocket type", stubs=["utils::tokenize_pooled -> no-op (URL tokens do not feed the classification)"]),
        kern("C12.srchash_t", "src/request.rs", "h_request.rs", "c12_srchash_t", [T], 260, 2400, 12, ["request::Request::preparsed"], "source host 0..=5 bytes", [("hb", B(5)), ("hl", "usize")], "c12_srchash",
             asserts="as C12.srchash", stubs=[PACK]),
    ],
    level_text="Decides request classification: scheme -> http/https/supported/forced-websocket for every scheme string up to 5 bytes, the request-type alias table, and the source-hostname suffix hashes (the keys $domain= options are matched against).",
    level_note="Partial. Decided: Request::from_detailed_parameters flags, cpt_match_type, source_hostname_hashes. Outside: the URL scanner (5 symbolic bytes >25 min), third-party classification (PSL tables), IDNA, Request::new == Request::preparsed end to end; the line url[..memchr(':')] deriving the scheme is read, not proved.",
    outside=["URL scanner (userinfo/host/IDNA)", "PSL lookup / third-party classification", "new == preparsed end to end"],
    assumptions=["the scheme passed to from_detailed_parameters contains no ':' (it is the URL prefix before the first ':')"],
)

# ------------------------------------------------------------------------------------------------- C16
HOST_LAYOUT = lambda n: [("hb", B(n)), ("hl", "usize"), ("ds", "usize")]
PROPERTIES["C16"] = dict(
    kernels=[
        kern("C16.labels", "src/filters/cosmetic.rs", "h_cosmetic.rs", "c16_labels", [Q], 90, 900, 8, ["filters::cosmetic::get_hostname_hashes_from_labels", "filters::cosmetic::get_hashes_from_labels"],
             "host 1..=6 printable ASCII bytes, registrable-domain split at any position that is 0 or follows a '.'", HOST_LAYOUT(6), "c16_labels",
             asserts="hostname keys == { hash(s) : s a label-suffix of the host containing the whole registrable domain }", stubs=[PACK]),
        kern("C16.entity", "src/filters/cosmetic.rs", "h_cosmetic.rs", "c16_entity", [Q], 60, 900, 8, ["filters::cosmetic::get_entity_hashes_from_labels", "filters::cosmetic::get_hostname_without_public_suffix"],
             "as C16.labels", HOST_LAYOUT(6), "c16_entity", asserts="entity keys == { hash(s) : s a label-suffix of host-minus-public-suffix } + { hash(public suffix) }; none when the domain has no dot", stubs=[PACK]),
        kern("C16.generic", "src/filters/cosmetic.rs", "h_cosmetic.rs", "c16_generic", [Q, T], 10, 600, 4, ["filters::cosmetic::CosmeticFilter::hidden_generic_rule", "CosmeticFilter::has_hostname_constraint"],
             "every combination of present/absent hostnames, entities, negated hostnames, negated entities x 256 mask values x action present/absent",
             [("e", "bool"), ("h", "bool"), ("ne", "bool"), ("nh", "bool"), ("mbits", "u8"), ("act", "bool")], "c16_generic",
             asserts="a rule also acts generically iff it has only negated locations, no action and is not a script injection; the generic twin is unscoped"),
        kern("C16.labels_t", "src/filters/cosmetic.rs", "h_cosmetic.rs", "c16_labels_t", [T], 200, 2400, 12, ["filters::cosmetic::get_hostname_hashes_from_labels"], "host 1..=7 bytes", HOST_LAYOUT(7), "c16_labels", asserts="as C16.labels", stubs=[PACK]),
        kern("C16.entity_t", "src/filters/cosmetic.rs", "h_cosmetic.rs", "c16_entity_t", [T], 150, 2400, 12, ["filters::cosmetic::get_entity_hashes_from_labels"], "host 1..=7 bytes", HOST_LAYOUT(7), "c16_entity", asserts="as C16.entity", stubs=[PACK]),
    ],
    level_text="Decides the host -> lookup-key derivation behind per-site cosmetic scoping: exactly the label suffixes from the full host down to the registrable domain (and the entity forms) are looked up, for every host inside the bound and every admissible domain split; and when a negated-location rule also acts generically.",
    level_note="Partial. Decided: get_hostname_hashes_from_labels, get_entity_hashes_from_labels, hidden_generic_rule/has_hostname_constraint. Outside: populate/prune over HashMap<Hash,Vec<String>> + HashSet<String>, the public-suffix resolver (its documented contract is assumed), IDN, generichide.",
    outside=["store/prune over HashMap + HashSet<String>", "PSL resolver", "IDN", "generichide (Blocker)"],
    assumptions=["the resolver returns a registrable domain that starts at 0 or after a '.', and does not start or end with '.'", "no 64-bit hash collision (injective packing)"],
)

# ------------------------------------------------------------------------------------------------- C18
PROPERTIES["C18"] = dict(
    kernels=[
        kern("C18.perm", "src/resources/mod.rs", "h_resources_mod.rs", "c18_perm", [Q, T], 2, 300, 4,
             ["resources::PermissionMask::is_injectable_by", "resources::PermissionMask::is_default", "resources::PermissionMask::from_bits"],
             "all 256 x 256 (required, granted) pairs", [("required", "u8"), ("granted", "u8")], "c18_perm",
             asserts="is_injectable_by(required, granted) <=> every required bit is granted; is_default <=> no bit; `|` and `|=` are the bitwise union (per-host permission of an injection = union over the requesting rules)"),
        kern("C18.redirect_gate", "src/resources/resource_storage.rs", "h_resource_storage.rs", "c18_redirect_gate", [Q, T], 30, 600, 8,
             ["resources::resource_storage::ResourceStorage::get_redirect_resource", "resources::ResourceType::supports_redirect", "resources::PermissionMask::is_default"],
             "all 256 permission bytes x all 13 resource kinds (Template + 12 MIME kinds)", [("p", "u8"), ("k", "u8")], "c18_redirect_gate",
             asserts="get_redirect_resource serves a resource <=> it requires no permission and its kind is redirectable (not a template, not fn/javascript)",
             stubs=["ResourceStorage::get_internal_resource (name -> resource lookup in HashMap<String,Resource>) -> returns the one harness-built resource", "alloc::fmt::format -> empty string (the data: URL text is not inspected)", "std::hash::RandomState::new -> fixed seed (empty maps only)"]),
        kern("C18.scriptlet_gate", "src/resources/resource_storage.rs", "h_resource_storage.rs", "c18_scriptlet_gate", [Q, T], 30, 600, 8,
             ["resources::resource_storage::ResourceStorage::get_permissioned_resource", "resources::PermissionMask::is_injectable_by"],
             "all 256 x 256 (required, granted) pairs, resource present or absent", [("required", "u8"), ("granted", "u8"), ("found", "bool")], "c18_scriptlet_gate",
             asserts="get_permissioned_resource (the gate of the scriptlet and of each transitive dependency) returns the resource <=> it exists and every required bit is granted; InsufficientPermissions / NoMatchingScriptlet exactly otherwise",
             stubs=["ResourceStorage::get_internal_resource (name -> resource lookup in HashMap<String,Resource>) -> returns the one harness-built resource or None", "std::hash::RandomState::new -> fixed seed (empty maps only)"]),
        kern("C18.sep", "src/resources/resource_storage.rs", "h_resource_storage.rs", "c18_sep", [T], 2000, 5400, 16, ["resources::resource_storage::index_next_unescaped_separator"],
             "3 printable ASCII bytes, symbolic length", [("b", B(3)), ("l", "usize")], "c18_sep", asserts="no panic; returned index in range, points at an unescaped ','; None only if every ',' is escaped", panic_free=True),
    ],
    level_text="Decides, for all 256x256 mask pairs, that the permission gate predicate every scriptlet/dependency/redirect decision calls is exactly 'required bits are a subset of granted bits'; and that the real get_redirect_resource (name lookup stubbed) serves a resource iff it needs no permission and is of a redirectable kind, for all 256 permission bytes x 13 kinds; thorough adds the +js(...) separator scan. Thin claim: the argument-literal encoding and the dependency walk are outside.",
    level_note="Partial and thin. Decided: PermissionMask::is_injectable_by / is_default / union for all pairs (exhaustive by the solver); the permission + kind gate of ResourceStorage::get_redirect_resource and the scriptlet/dependency gate get_permissioned_resource, both downstream of the name lookup (C18.redirect_gate, C18.scriptlet_gate). Outside: stringify_arg (no result in 12 min at 1 byte), dependency graph walk (HashMap<String,Resource>), template patching (regex), per-host merge.",
    outside=["argument literal encoding (stringify_arg)", "dependency graph walk (HashMap<String,Resource>)", "template patching (regex)", "per-host merge"],
    assumptions=["every permission decision in the crate is a call to is_injectable_by/is_default (read, not proved)"],
)

# ------------------------------------------------------------------------------------------------- C07
PROPERTIES["C07"] = dict(
    kernels=[
        scan("C07", "gate.tag_off", "c01_scan_tagged_first_off", ["a", None], False, "a rule tagged 'a' is skipped when 'a' is not enabled, and the untagged rule behind it is still evaluated"),
        scan("C07", "gate.tag_on", "c01_scan_tagged_first_on", ["a", None], True, "a rule tagged 'a' takes part in matching when 'a' is enabled"),
        scan("C07", "gate.tagged_last", "c01_scan_tagged_last_off", [None, "a"], False, "an inactive tagged rule behind an untagged one"),
        scan("C07", "gate.other_tag", "c01_scan_other_tag", ["b", "a"], True, "a rule tagged 'b' stays inactive while 'a' is enabled"),
        scan("C07", "gate.all_off", "c01_scanall_tagged_first_off", ["a", None], False, "check_all (csp / redirect / removeparam lists) applies the same tag test: inactive", tiers=(T,)),
        scan("C07", "gate.all_on", "c01_scanall_tagged_first_on", ["a", None], True, "check_all: active", tiers=(T,)),
    ],
    level_text="Decides the activation test at match time for tagged rules (both scan functions, every combination of per-rule match outcomes, tag enabled / not enabled / a different tag enabled).",
    level_note="Partial. Decided: the tag test inside NetworkFilterList::check / check_all on buckets of concrete shape (which blocking/exception lists receive the enabled set: C04.prec), in container mode (std HashMap/HashSet replaced by Vec-backed reference containers; per-rule matcher abstracted). Outside: which lists receive the enabled set inside Blocker::check (covered for blocking/exception lists by C04.prec), important+tag and csp+tag rules (known from reading: importants and csp lists are scanned with the empty tag set), deserialize keeping the caller's tags (Engine + rmp-serde), the rebuild of the tagged list (NetworkFilterList::new).",
    outside=["tag-set algebra of use/enable/disable (sets of symbolic Strings: out of memory at 16 GB for three one-letter tags)", "Engine::deserialize keeps the caller's enabled set (rmp-serde)", "rebuild of filters_tagged through NetworkFilterList::new with rules loaded", "tag + important / tag + csp combinations"],
    assumptions=["std HashMap/HashSet behave as a finite map/set", "the per-rule matcher outcome is a free boolean per rule"],
)

# --------------------------------------------------------------------------------------------- selftest
PROPERTIES["SELF_FALSE"] = dict(kernels=[kern("SELF.false", "src/resources/mod.rs", "h_selftest.rs", "self_false", [Q], 2, 300, 4, ["selftest"], "-", [("r", "u8")], "selftest")],
                                level_text="", level_note="", outside=[], assumptions=[])
PROPERTIES["SELF_VACUOUS"] = dict(kernels=[kern("SELF.vacuous", "src/resources/mod.rs", "h_selftest.rs", "self_vacuous", [Q], 2, 300, 4, ["selftest"], "-", [("r", "u8")], "selftest")],
                                  level_text="", level_note="", outside=[], assumptions=[])

NOTES = ("Every check is a set of Kani proof harnesses over the real functions of /repo (copied and re-encoded on every run). "
         "All claims are bounded (bounds per kernel in the evidence) and partial: each level_note says which part of the property is decided "
         "and which is outside. Exit 2 = inconclusive (timeout, OOM, harness no longer compiles, vacuity witness unsatisfied, counterexample not reproducible).")

NOT_APPLICABLE = {
    "C06": "history independence: the regex cache hazard is heap-address reuse (CBMC's allocator never reuses an address), (de)serialisation is rmp-serde (6 symbolic bytes: 11 GB, no result), and even the one clause that is pure bit logic — Blocker::new vs add_filter file a single rule of symbolic mask under the same lists, in container mode — did not leave symbolic execution in 30 min (eight NetworkFilterList::new calls over vectors of symbolic length)",
    "C09": "the quantified variable is the SipHash seed / hashbrown iteration order: a symbolic seed makes every hash symbolic (2-entry map: no result in 25 min); cross-process runs are not a symbolic execution; the one separable mechanism (insert_dup keeps a bucket sorted by id) ran out of memory at 8 GB for two symbolic ids (Vec::insert of Arc elements at a symbolic slot)",
    "C13": "redirect selection is inlined in Blocker::check_parameterised behind check_all; in container mode (Vec-backed containers, per-rule matcher abstracted, resource store stubbed to the identity on the name) a redirect list of two rules ran out of memory at 45 GB — same obstacle as C15 (a result vector of symbolic length holding symbolic pointers, then string comparison / priority parsing through them); the permission gate predicate is covered under C18",
    "C14": "apply_removeparam needs a populated NetworkFilterList (HashMap) and builds its result with format!/join; probe >30 min without result",
    "C15": "get_csp_directives: even in container mode (Vec-backed map/set, per-rule matcher abstracted to a free boolean) a csp list of two rules runs out of memory at 40 GB — check_all returns a vector of symbolic length whose elements are symbolic pointers, and the merge compares directive strings through them (HashSet<&str> insert/difference + String pushes)",
    "C17": "key extraction is three Regex values (Kani ICEs on the regex crate) and the stores are HashSet<String>",
    "C19": "Kani does not model threads; no solver-based engine for Rust concurrency is installed",
    "C20": "every conversion arm runs Regex::replace_all (regex crate cannot be compiled by Kani); parser-reachable masks need NetworkFilter::parse (>25 min for one concrete line)",
}
