"""Kernel registry: which Kani harness decides which part of which property (DESIGN.md section 5).

Each kernel names: the source file it is injected into (as a child module, so private functions are
reachable), the harness function, tiers, budget, the real functions executed, bounds, stubs, cuts, the
layout of its symbolic inputs (for decoding concrete-playback vectors) and the native replay routine.
"""
import struct

TRUSTED = [
    "rustc MIR -> Kani 0.68 -> CBMC 6.11 -> CaDiCaL; Kani's models of allocation and intrinsics",
    "harness/shim.rs: single-threaded Lazy stand-in for once_cell::sync::Lazy; naive memchr/memrchr/memmem::find stand-ins for the calls made by adblock's own sources",
    "stubs listed under coverage.stubs (regex paths are cut with assume(false); fast_hash is an injective packing = the property's own no-collision assumption)",
    "harness oracles (short reference functions over bytes/positions in harness/*.rs)",
    "for reported violations the above are removed from the trusted base by native replay (dev+release) through the public API",
]

# ---------------------------------------------------------------------------------------------- decode
# layout item: (name, type) with type in: u8 bool u32 u64 usize char  or ("bytes", N)
SIZES = {"u8": 1, "bool": 1, "u16": 2, "u32": 4, "u64": 8, "usize": 8, "char": 4, "i32": 4}


def _val(ty, bs):
    if isinstance(ty, tuple) and ty[0] == "bytes":
        return list(bs)
    n = int.from_bytes(bytes(bs), "little")
    if ty == "bool":
        return bool(n & 1)
    return n


def decode_layout(layout, vecs):
    """vecs: list of byte lists, one per kani::any() call in call order. Arrays may arrive as one vector
    of N bytes or as N one-byte vectors; both are accepted."""
    out = {}
    i = 0
    for name, ty in layout:
        if i >= len(vecs):
            out[name] = None
            continue
        if isinstance(ty, tuple) and ty[0] == "bytes":
            n = ty[1]
            if len(vecs[i]) == n:
                out[name] = list(vecs[i]); i += 1
            else:
                bs = []
                while len(bs) < n and i < len(vecs) and len(vecs[i]) == 1:
                    bs.append(vecs[i][0]); i += 1
                out[name] = bs
        else:
            out[name] = _val(ty, vecs[i]); i += 1
    out["_extra_vectors"] = len(vecs) - i
    return out


def decode_for_check(kern, check, playbacks, _text):
    """Kani prints one playback block per failing check / satisfied cover, headed by the check's description."""
    for pb in playbacks or []:
        if pb.get("desc") == check["desc"]:
            return decode_layout(kern["layout"], pb["vals"])
    return None


def kern(id, inject, hfile, harness, tiers, expect_s, timeout_s, mem_gb, functions, bounds, layout, replay, asserts="", stubs=(), cuts=(), **kw):
    d = dict(id=id, inject=inject, hfile=hfile, harness=harness, tiers=tiers, expect_s=expect_s, timeout_s=timeout_s, mem_gb=mem_gb,
             functions=list(functions), bounds=bounds, layout=layout, replay=replay, asserts=asserts, stubs=list(stubs), cuts=list(cuts))
    d.update(kw)
    return d


Q, T = "quick", "thorough"
PROPERTIES = {}

# ------------------------------------------------------------------------------------------------- C18
PROPERTIES["C18"] = dict(
    kernels=[
        kern("C18.perm", "src/resources/mod.rs", "h_resources_mod.rs", "c18_perm", [Q, T], 2, 300, 4,
             ["resources::PermissionMask::is_injectable_by", "resources::PermissionMask::is_default", "resources::PermissionMask::from_bits"],
             "all 256 x 256 (required, granted) pairs", [("required", "u8"), ("granted", "u8")], "c18_perm",
             asserts="is_injectable_by(required, granted) <=> every required bit is granted; is_default <=> no bit"),
    ],
    level_text="Decides, for all 256x256 mask pairs, that the permission gate predicate every scriptlet/dependency/redirect decision calls is exactly 'required bits are a subset of granted bits'. Thin claim: the argument-literal encoding and the dependency walk are outside.",
    level_note="Partial. Decided: PermissionMask::is_injectable_by / is_default for all pairs (exhaustive by the solver). Outside: stringify_arg (no result in 12 min at 1 byte), dependency graph walk (HashMap<String,Resource>), template patching (regex), per-host merge.",
    outside=["argument literal encoding (stringify_arg)", "dependency graph walk (HashMap<String,Resource>)", "template patching (regex)", "per-host merge"],
    assumptions=["every permission decision in the crate is a call to is_injectable_by/is_default (read, not proved)"],
)

# ------------------------------------------------------------------------------------------------- C10
PROPERTIES["C10"] = dict(
    kernels=[
        kern("C10.header", "src/data_format/mod.rs", "h_data_format_mod.rs", "c10_header", [Q], 5, 300, 4,
             ["data_format::DeserializeFormat::deserialize (header/version dispatch)"],
             "every buffer of length 0..=11 (11 symbolic bytes, symbolic length)", [("buf", ("bytes", 11)), ("len", "usize")], "c10_header",
             asserts="no panic / out-of-bounds index for any buffer",
             stubs=["data_format::v0::DeserializeFormat::deserialize -> Err (rmp-serde body decode is out of reach)"]),
        kern("C10.header16", "src/data_format/mod.rs", "h_data_format_mod.rs", "c10_header_16", [T], 10, 900, 8,
             ["data_format::DeserializeFormat::deserialize (header/version dispatch)"],
             "every buffer of length 0..=16", [("buf", ("bytes", 16)), ("len", "usize")], "c10_header",
             asserts="no panic / out-of-bounds index for any buffer",
             stubs=["data_format::v0::DeserializeFormat::deserialize -> Err (rmp-serde body decode is out of reach)"]),
    ],
    level_text="Decides that the header/version dispatch in front of the msgpack decoder cannot panic for any buffer up to the bound, and that a decoded rule value with any of the 2^32 masks and absent hostname cannot panic the matcher.",
    level_note="Partial. Decided: data_format::DeserializeFormat::deserialize dispatch for every buffer <= 11 bytes (16 thorough) with the rmp-serde body decoder stubbed to Err; check_pattern on rule values with arbitrary mask and no hostname. Outside: rmp-serde decode of corrupted bodies, rule values with strings, atomicity.",
    outside=["decode of corrupted bodies (rmp-serde)", "rule values with hostname/pattern strings", "atomicity beyond 'error returns before any assignment'"],
    assumptions=["the v0 body decoder either returns Err or a value; it is stubbed to Err"],
)

NOTES = ("Every check is a set of Kani proof harnesses over the real functions of /repo (copied and re-encoded on every run). "
         "All claims are bounded (bounds per kernel in the evidence) and partial: each level_note says which part of the property is decided "
         "and which is outside. Exit 2 = inconclusive (timeout, OOM, harness no longer compiles, vacuity witness unsatisfied, counterexample not reproducible).")

NOT_APPLICABLE = {
    "C06": "history independence: every operation in the quantifier goes through Blocker/Engine (std HashMap/HashSet<String>: one symbolic-key insert+get >15 min), the regex cache hazard is heap-address reuse which CBMC's allocator never produces, and (de)serialisation is rmp-serde (6 symbolic bytes: 11 GB, no result)",
    "C07": "the activation test is one expression inside the HashMap bucket scan and the tag-set algebra is HashSet<String>; no separable kernel that Kani finishes (the wire mapping of a rule's tag is checked under C08)",
    "C09": "the quantified variable is the SipHash seed / hashbrown iteration order: a symbolic seed makes every hash symbolic (2-entry map: no result in 25 min); cross-process runs are not a symbolic execution",
    "C13": "selection loop is inlined in Blocker::check_parameterised (HashMap x8), resource lookup is HashMap<String,Resource>, result built with format!; the permission gate predicate is covered under C18",
    "C14": "apply_removeparam needs a populated NetworkFilterList (HashMap) and builds its result with format!/join; probe >30 min without result",
    "C15": "get_csp_directives = HashMap scan + HashSet<&str> + string join; probe >30 min without result",
    "C17": "key extraction is three Regex values (Kani ICEs on the regex crate) and the stores are HashSet<String>",
    "C19": "Kani does not model threads; no solver-based engine for Rust concurrency is installed",
    "C20": "every conversion arm runs Regex::replace_all (regex crate cannot be compiled by Kani); parser-reachable masks need NetworkFilter::parse (>25 min for one concrete line)",
}
